//go:build verif

package main

import (
	"encoding/json"
	"flag"
	"fmt"
	"math/rand"
	"reflect"
	"sort"
	"strconv"
	"strings"
	"syscall"
	"testing"
	"time"

	"github.com/EdgeCast/vflow/verifsim/simrt"
)

// Boot scenario (C17): the real GetOptions / main() is booted with a drawn
// environment, configuration file (on the simulated disk) and command line;
// the effective value of every setting must follow flag > file > env > default.

// BootCase is one key under one subset of sources.
type BootCase struct {
	Key     string `json:"key"`      // yaml key
	Env     string `json:"env"`      // value given in the environment ("" = not given)
	File    string `json:"file"`     // value given in the configuration file
	Flag    string `json:"flag"`     // value given on the command line
	HasEnv  bool   `json:"has_env"`
	HasFile bool   `json:"has_file"`
	HasFlag bool   `json:"has_flag"`
	// a source may restate the built-in default (filled in at execution)
	EnvIsDefault  bool `json:"env_is_default,omitempty"`
	FileIsDefault bool `json:"file_is_default,omitempty"`
	FlagIsDefault bool `json:"flag_is_default,omitempty"`
}

// BootPlan is one simulated boot.
type BootPlan struct {
	Cases      []BootCase `json:"cases"`       // several keys per boot
	ConfigPath string     `json:"config_path"` // "" = default location, no -config argument
	ConfigPos  int        `json:"config_pos,omitempty"` // the -config argument follows this many other arguments (0: first)
	FileFault  string     `json:"file_fault"`  // "" | absent | unreadable | empty
	// environment variables that are not the variable of a scalar setting (the
	// variable named after a list-valued setting, an unknown VFLOW_ name): the
	// statement gives them no influence on any other setting
	ExtraEnv [][2]string `json:"extra_env,omitempty"`
	FullBoot   bool       `json:"full_boot"`   // run main() and observe behaviour, else GetOptions only
	Seed       int64      `json:"seed"`
}

// optKey describes one setting, discovered by reflection.
type optKey struct {
	Yaml  string
	Flag  string
	Env   string
	Kind  reflect.Kind
	Index int
}

// discoverKeys boots GetOptions once with no sources and maps every yaml key
// to its flag name (by comparing the flag's target address with the field's).
func discoverKeys(o *Options, fs *flag.FlagSet) []optKey {
	var keys []optKey
	v := reflect.ValueOf(o).Elem()
	t := v.Type()
	for i := 0; i < t.NumField(); i++ {
		y := t.Field(i).Tag.Get("yaml")
		k := v.Field(i).Kind()
		if y != "" && k != reflect.Int && k != reflect.String && k != reflect.Bool {
			n := "VFLOW_" + strings.ReplaceAll(strings.ToUpper(y), "-", "_")
			seen := false
			for _, o := range bootOtherEnv {
				seen = seen || o == n
			}
			if !seen {
				bootOtherEnv = append(bootOtherEnv, n)
			}
		}
		if y == "" || (k != reflect.Int && k != reflect.String && k != reflect.Bool) {
			continue
		}
		addr := v.Field(i).Addr().Pointer()
		fname := ""
		fs.VisitAll(func(f *flag.Flag) {
			fv := reflect.ValueOf(f.Value)
			if fv.Kind() == reflect.Ptr && fv.Pointer() == addr {
				fname = f.Name
			}
		})
		keys = append(keys, optKey{Yaml: y, Flag: fname, Env: "VFLOW_" + strings.ReplaceAll(strings.ToUpper(y), "-", "_"), Kind: k, Index: i})
	}
	return keys
}

// bootOtherEnv: variables named after settings that are not scalars.
var bootOtherEnv []string

type bootObs struct {
	Opts     map[string]string // effective value per yaml key (GetOptions)
	Defaults map[string]string
	Keys     []optKey
	Exited   bool
	ExitCode int
	Panic    string
	Stack    string
	Bound    []string
	HTTP     []string
	Workers  map[string]int32
	Log      string
	Steps    uint64
	Hash     uint64
	Files    map[string][]byte
}

func optValues(o *Options) map[string]string {
	out := map[string]string{}
	v := reflect.ValueOf(o).Elem()
	t := v.Type()
	for i := 0; i < t.NumField(); i++ {
		y := t.Field(i).Tag.Get("yaml")
		if y == "" {
			continue
		}
		switch v.Field(i).Kind() {
		case reflect.Int:
			out[y] = strconv.FormatInt(v.Field(i).Int(), 10)
		case reflect.String:
			out[y] = v.Field(i).String()
		case reflect.Bool:
			out[y] = strconv.FormatBool(v.Field(i).Bool())
		}
	}
	return out
}

func configPathOf(p *BootPlan) string {
	if p.ConfigPath != "" {
		return p.ConfigPath
	}
	return confDir + "/vflow.conf"
}

// simulation-only settings given on every command line unless the key is under test
var bootBaseline = [][2]string{
	{"stats-format", "restful"}, {"dynamic-workers", "false"}, {"ipfix-rpc-enabled", "false"}, {"producer-enabled", "false"},
	{"ipfix-workers", "2"}, {"sflow-workers", "2"}, {"netflow5-workers", "2"}, {"netflow9-workers", "2"},
}

func runBoot(p *BootPlan, ch *simrt.Choices, keys []optKey) *bootObs {
	obs := &bootObs{Opts: map[string]string{}, Workers: map[string]int32{}, Files: map[string][]byte{}}
	sim := simrt.New(ch)
	defer sim.Close()
	resetGlobals(&NodeCfg{CapUDP: 16, CapMQ: 16, CapMirror: 16})
	byYaml := map[string]optKey{}
	for _, k := range keys {
		byYaml[k.Yaml] = k
	}
	env := map[string]string{}
	var fileLines []string
	args := []string{"vflow"}
	under := map[string]bool{}
	for _, c := range p.Cases {
		k := byYaml[c.Key]
		under[c.Key] = true
		if c.HasEnv {
			env[k.Env] = c.Env
		}
		if c.HasFile {
			fileLines = append(fileLines, fmt.Sprintf("%s: %s", c.Key, yamlScalar(c.File, k.Kind)))
		}
		if c.HasFlag && k.Flag != "" {
			args = append(args, "-"+k.Flag+"="+c.Flag)
		}
	}
	for _, e := range p.ExtraEnv {
		if _, ok := env[e[0]]; !ok {
			env[e[0]] = e[1]
		}
	}
	if p.FullBoot {
		for _, b := range bootBaseline {
			if !under[b[0]] {
				fk := b[0]
				for _, k := range keys {
					if k.Yaml == b[0] && k.Flag != "" {
						fk = k.Flag
					}
				}
				args = append(args, "-"+fk+"="+b[1])
			}
		}
	}
	if p.ConfigPath != "" {
		// anywhere on the command line: options in front of it and behind it
		pos := 1 + p.ConfigPos
		if pos > len(args) {
			pos = len(args)
		}
		args = append(args[:pos:pos], append([]string{"-config", p.ConfigPath}, args[pos:]...)...)
	}
	cpath := configPathOf(p)
	switch p.FileFault {
	case "absent":
	case "empty":
		sim.FS.Put(cpath, []byte{})
	case "unreadable":
		sim.FS.Put(cpath, []byte(strings.Join(fileLines, "\n")+"\n"))
		sim.FS.ReadErr = map[string]error{cpath: syscall.EACCES}
	default:
		sim.FS.Put(cpath, []byte(strings.Join(fileLines, "\n")+"\n"))
	}
	sim.Boot.Args = args
	sim.Boot.Env = env
	done := false
	if !p.FullBoot {
		sim.GoNamed("getoptions", false, func() {
			o := GetOptions()
			obs.Opts = optValues(o)
			done = true
		})
		sim.OnIdle = func() bool { return done || sim.Exited }
	} else {
		sim.GoNamed("main", false, func() {
			main()
			sim.MainDone = true
		})
		idles := 0
		sim.OnIdle = func() bool {
			idles++
			if sim.Exited || sim.MainDone {
				return true
			}
			if idles < 2 {
				return false
			}
			if opts != nil {
				obs.Opts = optValues(opts)
			}
			if st, e := fetchStats(sim); e == "" {
				for _, pr := range allProtos {
					if ps := st.get(pr); ps != nil {
						obs.Workers[pr] = ps.Workers
					}
				}
			}
			return true
		}
	}
	sim.Run()
	if p.FullBoot && len(obs.Opts) == 0 && opts != nil && !sim.Exited {
		// every protocol disabled: no timer ever fires after the start-up, the
		// scheduler returned at its idle limit instead of a second idle call
		obs.Opts = optValues(opts)
		if st, e := fetchStats(sim); e == "" {
			for _, pr := range allProtos {
				if ps := st.get(pr); ps != nil {
					obs.Workers[pr] = ps.Workers
				}
			}
		}
	}
	if t := sim.Panicked; t != nil {
		obs.Panic = fmt.Sprint(t.Panic)
		obs.Stack = t.Stack
	}
	obs.Exited, obs.ExitCode = sim.Exited, sim.ExitCode
	obs.Bound = sim.Net.BoundAddrs()
	for _, h := range sim.HTTP {
		obs.HTTP = append(obs.HTTP, h.Addr)
	}
	obs.Log = sim.Log.String()
	obs.Steps, obs.Hash = sim.Seq, sim.TraceHash
	sim.Teardown()
	return obs
}

func yamlScalar(v string, k reflect.Kind) string {
	if k == reflect.String {
		return strconv.Quote(v)
	}
	return v
}

// bootDefaults runs GetOptions with no sources at all to learn the defaults
// and the key table (once per process).
var (
	bootKeys     []optKey
	bootDefaults map[string]string
)

func learnDefaults(t *testing.T) string {
	if bootKeys != nil {
		return ""
	}
	var msg string
	bubble(t, func() {
		sim := simrt.New(simrt.NewChoices(1))
		defer sim.Close()
		resetGlobals(&NodeCfg{CapUDP: 1, CapMQ: 1, CapMirror: 1})
		sim.Boot.Args = []string{"vflow"}
		done := false
		sim.GoNamed("getoptions", false, func() {
			o := GetOptions()
			bootDefaults = optValues(o)
			bootKeys = discoverKeys(o, simrt.FlagSet())
			done = true
		})
		sim.OnIdle = func() bool { return done || sim.Exited }
		sim.Run()
		if sim.Exited {
			msg = "GetOptions exited while learning the defaults: " + sim.Log.String()
		}
		sim.Teardown()
	})
	return msg
}

func precedence(c *BootCase, def string, fileApplies bool) (string, string) {
	switch {
	case c.HasFlag:
		return c.Flag, "command line"
	case c.HasFile && fileApplies:
		return c.File, "configuration file"
	case c.HasEnv:
		return c.Env, "environment"
	}
	return def, "default"
}

func execBoot(t *testing.T, prop string, planJSON []byte, ch *simrt.Choices, trace bool) *RunOut {
	out := &RunOut{Scenario: "boot", PlanJSON: planJSON, Faults: map[string]int{}, Probes: map[string]int{}, PlanHash: planHash(planJSON)}
	var p BootPlan
	if err := json.Unmarshal(planJSON, &p); err != nil {
		out.Inconclusive = "bad-plan"
		return out
	}
	if msg := learnDefaults(t); msg != "" {
		out.Violations = append(out.Violations, Violation{Prop: prop, Class: "harness-panic", Key: "harness", Msg: msg})
		return out
	}
	for i := range p.Cases {
		c := &p.Cases[i]
		if d, ok := bootDefaults[c.Key]; ok {
			if c.EnvIsDefault && d != "" {
				c.Env = d
			}
			if c.FileIsDefault {
				c.File = d
			}
			if c.FlagIsDefault {
				c.Flag = d
			}
		}
	}
	var obs *bootObs
	if pv := bubble(t, func() { obs = runBoot(&p, ch, bootKeys) }); pv != nil {
		out.Violations = append(out.Violations, Violation{Prop: prop, Class: "harness-panic", Key: "harness", Msg: fmt.Sprint(pv)})
		return out
	}
	out.Steps, out.TraceHash, out.Choices = obs.Steps, obs.Hash, ch.Rec
	out.NonTrivial = len(obs.Opts) > 0
	if p.FileFault != "" {
		out.Faults["disk-config-"+p.FileFault]++
	}
	if obs.Panic != "" {
		out.Violations = append(out.Violations, Violation{Prop: prop, Class: "panic", Key: panicKey(obs.Stack, obs.Panic), Msg: "boot panicked: " + obs.Panic + "\n" + trimStack(obs.Stack)})
		return out
	}
	if obs.Exited {
		out.Violations = append(out.Violations, Violation{Prop: prop, Class: "boot-exit", Key: fmt.Sprintf("exit(%d)", obs.ExitCode),
			Msg: fmt.Sprintf("the collector exited with status %d while booting with valid settings; log: %s", obs.ExitCode, tail(obs.Log, 500))})
		return out
	}
	fileApplies := p.FileFault == ""
	byYaml := map[string]optKey{}
	for _, k := range bootKeys {
		byYaml[k.Yaml] = k
	}
	for i := range p.Cases {
		c := &p.Cases[i]
		k := byYaml[c.Key]
		if c.HasFlag && k.Flag == "" {
			continue
		}
		want, src := precedence(c, bootDefaults[c.Key], fileApplies)
		got := obs.Opts[c.Key]
		mask := ""
		if c.HasEnv {
			mask += "E"
		}
		if c.HasFile {
			mask += "F"
		}
		if c.HasFlag {
			mask += "C"
		}
		out.Probes["subset-"+mask]++
		out.Probes["kind-"+k.Kind.String()]++
		if got != want {
			out.Violations = append(out.Violations, Violation{Prop: prop, Class: "precedence", Key: fmt.Sprintf("%s sources=%s", k.Kind, mask),
				Msg: fmt.Sprintf("setting %s: effective value %q, want %q from the %s (env=%q given=%v, file=%q given=%v fault=%q, flag=%q given=%v, default=%q)",
					c.Key, got, want, src, c.Env, c.HasEnv, c.File, c.HasFile, p.FileFault, c.Flag, c.HasFlag, bootDefaults[c.Key])})
			continue
		}
		if p.FullBoot {
			checkBootBehaviour(prop, c, want, obs, out)
		}
	}
	out.Sample = map[string]interface{}{"scenario": "boot", "cases": p.Cases, "file_fault": p.FileFault, "config_path": p.ConfigPath, "full_boot": p.FullBoot, "bound": obs.Bound, "http": obs.HTTP}
	return out
}

// checkBootBehaviour compares observable behaviour with the effective value.
func checkBootBehaviour(prop string, c *BootCase, want string, obs *bootObs, out *RunOut) {
	bad := func(f string, a ...interface{}) {
		out.Violations = append(out.Violations, Violation{Prop: prop, Class: "behaviour", Key: c.Key, Msg: fmt.Sprintf("setting %s=%q: ", c.Key, want) + fmt.Sprintf(f, a...)})
	}
	hasPort := func(port string) bool {
		for _, b := range obs.Bound {
			if strings.HasSuffix(b, ":"+port) {
				return true
			}
		}
		return false
	}
	protoOf := map[string]string{"ipfix": pIPFIX, "sflow": pSFlow, "netflow5": pNF5, "netflow9": pNF9}
	parts := strings.SplitN(c.Key, "-", 2)
	pr, known := protoOf[parts[0]]
	switch {
	case known && len(parts) == 2 && parts[1] == "port":
		out.Probes["behaviour-port"]++
		if obs.Opts[parts[0]+"-enabled"] == "true" && !hasPort(want) {
			bad("no UDP socket is bound to that port (bound: %v)", obs.Bound)
		}
	case known && len(parts) == 2 && parts[1] == "workers":
		out.Probes["behaviour-workers"]++
		if obs.Opts[parts[0]+"-enabled"] == "true" && fmt.Sprint(obs.Workers[pr]) != want {
			bad("the stats API reports %d workers", obs.Workers[pr])
		}
	case known && len(parts) == 2 && parts[1] == "enabled":
		out.Probes["behaviour-enabled"]++
		port := obs.Opts[parts[0]+"-port"]
		if (want == "true") != hasPort(port) {
			bad("socket on port %s bound=%v (bound: %v)", port, hasPort(port), obs.Bound)
		}
	case c.Key == "stats-http-port":
		out.Probes["behaviour-http"]++
		ok := false
		for _, h := range obs.HTTP {
			if strings.HasSuffix(h, ":"+want) {
				ok = true
			}
		}
		if !ok && obs.Opts["stats-enabled"] == "true" {
			bad("the stats server listens on %v", obs.HTTP)
		}
	}
}

var bootObservable = []string{"ipfix-port", "sflow-port", "netflow5-port", "netflow9-port", "ipfix-workers", "sflow-workers", "netflow5-workers", "netflow9-workers",
	"ipfix-enabled", "sflow-enabled", "netflow5-enabled", "netflow9-enabled", "stats-http-port"}

func genBootPlan(seed int64, keys []optKey) *BootPlan {
	r := rand.New(rand.NewSource(seed))
	p := &BootPlan{Seed: seed, FullBoot: r.Intn(3) == 0}
	if r.Intn(3) == 0 {
		p.ConfigPath = []string{"/opt/vflow/etc/custom.conf", "/etc/vflow/other.conf", "relative.conf"}[r.Intn(3)]
		p.ConfigPos = []int{0, 0, 1, 2, 5, 100}[r.Intn(6)]
	}
	switch r.Intn(8) {
	case 0:
		p.FileFault = "absent"
	case 1:
		p.FileFault = "unreadable"
	case 2:
		p.FileFault = "empty"
	}
	sort.Slice(keys, func(i, j int) bool { return keys[i].Yaml < keys[j].Yaml })
	var cand []optKey
	for _, k := range keys {
		switch k.Yaml {
		case "log-file", "pid-file", "cpu-cap", "stats-format", "mq-name", "mq-config-file", "verbose", "stats-enabled":
			// settings that change how the boot itself behaves (log destination,
			// pid check, CPU validation, backend selection) are checked through
			// GetOptions only
			if p.FullBoot {
				continue
			}
		}
		if p.FullBoot {
			obsv := false
			for _, o := range bootObservable {
				if o == k.Yaml {
					obsv = true
				}
			}
			if !obsv {
				continue
			}
		}
		cand = append(cand, k)
	}
	n := 1 + r.Intn(4)
	usedPorts := map[string]bool{}
	for i := 0; i < n && len(cand) > 0; i++ {
		k := cand[r.Intn(len(cand))]
		dup := false
		for _, c := range p.Cases {
			if c.Key == k.Yaml {
				dup = true
			}
		}
		if dup {
			continue
		}
		mask := r.Intn(8)
		c := BootCase{Key: k.Yaml, HasEnv: mask&1 != 0, HasFile: mask&2 != 0, HasFlag: mask&4 != 0}
		vals := distinctValues(r, k, usedPorts)
		c.Env, c.File, c.Flag = vals[0], vals[1], vals[2]
		switch r.Intn(8) {
		case 0:
			c.FileIsDefault = true
		case 1:
			c.EnvIsDefault = true
		case 2:
			c.FlagIsDefault = true
		case 3:
			c.FileIsDefault, c.FlagIsDefault = true, true
		}
		p.Cases = append(p.Cases, c)
	}
	if r.Intn(3) == 0 {
		names := append(append([]string(nil), bootOtherEnv...), "VFLOW_NO_SUCH_KEY", "VFLOW_SFLOW", "HOME")
		for i, n := 0, 1+r.Intn(2); i < n; i++ {
			p.ExtraEnv = append(p.ExtraEnv, [2]string{names[r.Intn(len(names))], []string{"1,2", "[1,2]", "x", "0", "true"}[r.Intn(5)]})
		}
	}
	return p
}

// distinctValues draws three values that differ from each other and (where
// the domain allows) from the default.
func distinctValues(r *rand.Rand, k optKey, used map[string]bool) [3]string {
	var out [3]string
	switch k.Kind {
	case reflect.Int:
		for i := 0; i < 3; i++ {
			for {
				v := 1 + r.Intn(7)
				if strings.HasSuffix(k.Yaml, "port") {
					v = 10000 + r.Intn(40000)
				} else if strings.HasSuffix(k.Yaml, "udp-size") {
					v = 1000 + r.Intn(8000)
				}
				s := strconv.Itoa(v)
				if !used[k.Yaml+s] && !used["port"+s] {
					used[k.Yaml+s] = true
					if strings.HasSuffix(k.Yaml, "port") {
						used["port"+s] = true
					}
					out[i] = s
					break
				}
			}
		}
	case reflect.Bool:
		// only two values exist: adjacent sources alternate
		b := r.Intn(2) == 0
		out = [3]string{strconv.FormatBool(b), strconv.FormatBool(!b), strconv.FormatBool(b)}
	default:
		for i := 0; i < 3; i++ {
			out[i] = fmt.Sprintf("/tmp/verif-%s-%d-%d", k.Yaml, i, r.Intn(1000))
			if strings.HasSuffix(k.Yaml, "addr") {
				out[i] = fmt.Sprintf("127.0.%d.%d", i+1, 1+r.Intn(200))
			}
			if strings.HasSuffix(k.Yaml, "topic") {
				out[i] = fmt.Sprintf("topic.%d.%d", i, r.Intn(1000))
			}
			if k.Yaml == "stats-http-port" {
				out[i] = strconv.Itoa(20000 + 100*i + r.Intn(90))
			}
		}
	}
	return out
}

var bootKeysForGen []optKey

func genBootFor(prop, tier string, seed int64) []byte {
	// the key table is learnt lazily by the first Exec; the generator uses a
	// static copy of the yaml keys (kinds are re-checked at execution)
	if bootKeysForGen == nil {
		bootKeysForGen = staticOptKeys()
	}
	b, _ := json.Marshal(genBootPlan(seed, append([]optKey(nil), bootKeysForGen...)))
	return b
}

func staticOptKeys() []optKey {
	var keys []optKey
	t := reflect.TypeOf(Options{})
	for i := 0; i < t.NumField(); i++ {
		y := t.Field(i).Tag.Get("yaml")
		k := t.Field(i).Type.Kind()
		if y == "" || (k != reflect.Int && k != reflect.String && k != reflect.Bool) {
			continue
		}
		keys = append(keys, optKey{Yaml: y, Kind: k, Index: i})
	}
	return keys
}

var scBoot = defScenario(&Scenario{Name: "boot", Gen: genBootFor, Exec: execBoot})

func init() { register("C17", scBoot, 10) }

var _ = time.Second
