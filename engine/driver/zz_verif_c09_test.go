//go:build verif

package main

import (
	"encoding/json"
	"fmt"
	"math/rand"
	"net"
	"testing"
	"time"

	"github.com/EdgeCast/vflow/ipfix"
	netflow9 "github.com/EdgeCast/vflow/netflow/v9"
	"github.com/EdgeCast/vflow/verifsim/model"
	"github.com/EdgeCast/vflow/verifsim/simrt"
)

// C09: (a) an undecodable set inserted at any set boundary of a well-formed
// message leaves the records of all other sets unchanged; (b) cutting the
// datagram short at any octet (a transport fault) yields a prefix of the
// records of the complete datagram.

// C09Plan is one message with its template history.
type C09Plan struct {
	Proto       string       `json:"proto"`
	Exporter    ExporterPlan `json:"exporter"`
	Tpls        []Delivery   `json:"tpls"`    // announced earlier (incl. a template over an element missing from the model)
	Msg         Delivery     `json:"msg"`     // the well-formed message M
	Inserts     []C09Insert  `json:"inserts"` // undecodable sets to insert
	AllOffsets  bool         `json:"all_offsets"`
	Offsets     []int        `json:"offsets"`
	ExtElements bool         `json:"ext_elements"`
	// Multi > 0: one more message carries Multi undecodable sets at once (the
	// position-independent ones of Inserts in turn)
	Multi int `json:"multi,omitempty"`
	// StallProb > 0: the decoding task is descheduled now and then (per 10000
	// scheduling points, for up to 200 ms of simulated time) - also in the
	// middle of a message, at the cache's locks
	StallProb int `json:"stall_prob,omitempty"`
}

// C09Insert places an undecodable set before set index Pos of M.
type C09Insert struct {
	Pos   int       `json:"pos"`
	Set   model.Set `json:"set"`
	Early bool      `json:"early,omitempty"` // undecodable only in front of the in-message announcement of its id
}

type c09Decoder struct {
	proto string
	ip    net.IP
	tpls  [][]byte
}

// records decodes body on a fresh cache holding the announced templates and
// renders every record canonically.
func (d *c09Decoder) records(body []byte) (recs []string, msgNil bool, errText string) {
	if d.proto == pIPFIX {
		c := ipfix.GetCache("/none")
		for _, t := range d.tpls {
			ipfix.NewDecoder(d.ip, append([]byte(nil), t...)).Decode(c)
		}
		m, err := ipfix.NewDecoder(d.ip, append([]byte(nil), body...)).Decode(c)
		if err != nil {
			errText = err.Error()
		}
		if m == nil {
			return nil, true, errText
		}
		for _, r := range m.DataSets {
			recs = append(recs, fmt.Sprintf("%#v", r))
		}
		return recs, false, errText
	}
	c := netflow9.GetCache("/none")
	for _, t := range d.tpls {
		netflow9.NewDecoder(d.ip, append([]byte(nil), t...)).Decode(c)
	}
	m, err := netflow9.NewDecoder(d.ip, append([]byte(nil), body...)).Decode(c)
	if err != nil {
		errText = err.Error()
	}
	if m == nil {
		return nil, true, errText
	}
	for _, r := range m.DataSets {
		recs = append(recs, fmt.Sprintf("%#v", r))
	}
	return recs, false, errText
}

type c09Run struct {
	Findings []fileFinding
	Inserts  int
	Multi    int
	Truncs   int
	BaseRecs int
	Len      int
	Steps    uint64
}

func runC09(p *C09Plan, ch *simrt.Choices) *c09Run {
	res := &c09Run{}
	sim := simrt.New(ch)
	defer sim.Close()
	c := &NodeCfg{ExtElements: p.ExtElements, CapUDP: 1, CapMQ: 1, CapMirror: 1}
	resetGlobals(c)
	installFiles(sim, c)
	if p.ExtElements {
		ipfix.LoadExtElements(confDir)
	}
	simrt.SetFuel(20000000)
	defer simrt.SetFuel(0)
	exps := []ExporterPlan{p.Exporter}
	all := append(append([]Delivery(nil), p.Tpls...), p.Msg)
	encodeItems(all, exps)
	dec := &c09Decoder{proto: p.Proto, ip: srcAddr(&p.Exporter).IP}
	cache := model.TplCache{}
	for i := range p.Tpls {
		dec.tpls = append(dec.tpls, all[i].payload)
		for _, s := range all[i].Abs.Sets {
			for ti := range s.Tpls {
				t := s.Tpls[ti]
				cache[model.CacheKey(p.Exporter.Addr, t.ID)] = &t
			}
		}
	}
	M := all[len(all)-1].payload
	res.Len = len(M)
	done := false
	sim.StallProb, sim.StallMax = p.StallProb, 200*time.Millisecond
	sim.GoNamed("c09", p.StallProb == 0, func() {
		defer func() { done = true }()
		defer func() {
			if r := recover(); r != nil {
				res.Findings = append(res.Findings, fileFinding{"harness-or-decoder-panic", "panic", fmt.Sprint(r)})
			}
		}()
		base, baseNil, baseErr := dec.records(M)
		res.BaseRecs = len(base)
		if baseNil {
			res.Findings = append(res.Findings, fileFinding{"well-formed-rejected", p.Proto, "the well-formed message was rejected: " + baseErr})
			return
		}
		// (a) inserted undecodable sets
		for _, ins := range p.Inserts {
			simrt.Yield(-70)
			simrt.Refill()
			m2 := *p.Msg.Abs
			pos := ins.Pos % (len(m2.Sets) + 1)
			m2.Sets = append(append(append([]model.Set(nil), m2.Sets[:pos]...), ins.Set), m2.Sets[pos:]...)
			d2 := Delivery{Abs: &m2}
			body := encodeFlowInOrder(&d2, p.Exporter.Addr, cache)
			if len(body) > 65000 {
				continue
			}
			res.Inserts++
			got, gotNil, gotErr := dec.records(body)
			if gotNil || !equalStrings(got, base) {
				res.Findings = append(res.Findings, fileFinding{"neighbour-corrupted", fmt.Sprintf("%s: inserted set id %d", p.Proto, insID(p.Proto, &ins.Set)),
					fmt.Sprintf("inserting an undecodable set (id %d, %d body octets) before set %d changed the records of the other sets: %d records (message nil=%v, err=%q), %d without it\nfirst difference: %s",
						insID(p.Proto, &ins.Set), len(ins.Set.RawBody), pos, len(got), gotNil, gotErr, len(base), firstDiff(got, base))})
				return
			}
		}
		// (a') many undecodable sets in one message
		if p.Multi > 0 {
			var free []C09Insert
			for _, ins := range p.Inserts {
				if !ins.Early {
					free = append(free, ins)
				}
			}
			if len(free) > 0 {
				m2 := *p.Msg.Abs
				m2.Sets = append([]model.Set(nil), m2.Sets...)
				for i := 0; i < p.Multi; i++ {
					ins := free[i%len(free)]
					pos := (ins.Pos + i) % (len(m2.Sets) + 1)
					m2.Sets = append(append(append([]model.Set(nil), m2.Sets[:pos]...), ins.Set), m2.Sets[pos:]...)
				}
				d2 := Delivery{Abs: &m2}
				body := encodeFlowInOrder(&d2, p.Exporter.Addr, cache)
				if len(body) <= 65000 {
					res.Inserts++
					res.Multi++
					simrt.Refill()
					got, gotNil, gotErr := dec.records(body)
					if gotNil || !equalStrings(got, base) {
						res.Findings = append(res.Findings, fileFinding{"neighbour-corrupted", fmt.Sprintf("%s: many inserted sets", p.Proto),
							fmt.Sprintf("inserting %d undecodable sets into the message changed the records of the other sets: %d records (message nil=%v, err=%q), %d without them\nfirst difference: %s",
								p.Multi, len(got), gotNil, tail(gotErr, 300), len(base), firstDiff(got, base))})
						return
					}
				}
			}
		}
		// (b') truncation of messages that carry an undecodable set: cut inside
		// that set, the octets of its body must never be decoded as records
		for ii, ins := range p.Inserts {
			if ii >= 4 && !p.AllOffsets {
				break
			}
			m2 := *p.Msg.Abs
			pos := ins.Pos % (len(m2.Sets) + 1)
			m2.Sets = append(append(append([]model.Set(nil), m2.Sets[:pos]...), ins.Set), m2.Sets[pos:]...)
			d2 := Delivery{Abs: &m2}
			body := encodeFlowInOrder(&d2, p.Exporter.Addr, cache)
			if len(body) > 4000 {
				continue
			}
			full, fullNil, _ := dec.records(body)
			if fullNil {
				continue
			}
			for k := 0; k <= len(body); k++ {
				if k%64 == 0 {
					simrt.Yield(-70)
				}
				simrt.Refill()
				res.Truncs++
				got, _, _ := dec.records(body[:k])
				bad := len(got) > len(full)
				for i := 0; !bad && i < len(got); i++ {
					bad = got[i] != full[i]
				}
				if bad {
					res.Findings = append(res.Findings, fileFinding{"truncation-fabricates", p.Proto + ": cut inside a message with an undecodable set",
						fmt.Sprintf("message with an undecodable set (id %d) cut at octet %d of %d: %d records emitted that are not a prefix of the complete message's %d records\n%s", insID(p.Proto, &ins.Set), k, len(body), len(got), len(full), firstDiff(got, full))})
					return
				}
			}
		}
		// (b) truncation at every offset
		var ks []int
		if p.AllOffsets {
			for k := 0; k <= len(M); k++ {
				ks = append(ks, k)
			}
		} else {
			for _, k := range p.Offsets {
				ks = append(ks, ((k%(len(M)+1))+len(M)+1)%(len(M)+1))
			}
		}
		for _, k := range ks {
			if k%64 == 0 {
				simrt.Yield(-70)
			}
			simrt.Refill()
			res.Truncs++
			got, _, _ := dec.records(M[:k])
			if len(got) > len(base) {
				res.Findings = append(res.Findings, fileFinding{"truncation-fabricates", p.Proto + ": more records",
					fmt.Sprintf("cut at octet %d of %d: %d records emitted, the complete datagram yields %d", k, len(M), len(got), len(base))})
				return
			}
			for i := range got {
				if got[i] != base[i] {
					res.Findings = append(res.Findings, fileFinding{"truncation-fabricates", p.Proto + ": altered record",
						fmt.Sprintf("cut at octet %d of %d: record %d differs from the complete datagram's:\n got %s\nwant %s", k, len(M), i, tail(got[i], 300), tail(base[i], 300))})
					return
				}
			}
		}
	})
	sim.OnIdle = func() bool { return done }
	sim.Run()
	res.Steps = sim.Seq
	sim.Teardown()
	return res
}

func insID(proto string, s *model.Set) uint16 {
	if s.Kind == model.SetRaw {
		return s.RawID
	}
	return s.TplID
}

func equalStrings(a, b []string) bool {
	if len(a) != len(b) {
		return false
	}
	for i := range a {
		if a[i] != b[i] {
			return false
		}
	}
	return true
}

func firstDiff(a, b []string) string {
	for i := 0; i < len(a) && i < len(b); i++ {
		if a[i] != b[i] {
			return fmt.Sprintf("record %d: %s  vs  %s", i, tail(a[i], 200), tail(b[i], 200))
		}
	}
	return fmt.Sprintf("lengths %d vs %d", len(a), len(b))
}

func genC09Plan(seed int64, tier string) *C09Plan {
	r := rand.New(rand.NewSource(seed))
	p := &C09Plan{Proto: []string{pIPFIX, pNF9}[r.Intn(2)], ExtElements: r.Intn(2) == 0}
	mp := "ipfix"
	if p.Proto == pNF9 {
		mp = "nf9"
	}
	p.Exporter = ExporterPlan{Addr: genAddr(r, false), Port: 7000, Proto: p.Proto, SpareCap: r.Intn(2) == 0, Domain: 1}
	c := &NodeCfg{ExtElements: p.ExtElements}
	im := modelIM(c)
	g := model.NewGen(r, im, model.GenOpts{Proto: mp, Enterprise: p.ExtElements, VarLen: true, Reduced: true, TinyRecords: r.Intn(3) == 0, HardStrings: true, MaxSize: 1400})
	nt := 1 + r.Intn(4)
	var tpls []model.Template
	for i := 0; i < nt; i++ {
		tpls = append(tpls, g.Template(uint16(256+i)))
	}
	// a template over an element the information model lacks: its data sets are undecodable
	bad := model.Template{ID: 400, Fields: []model.FieldSpec{{ID: uint16(21000 + r.Intn(100)), Len: 4}, {ID: 1, Len: 8}}}
	if r.Intn(2) == 0 {
		// the id of the undecodable template was first announced with a decodable
		// definition of the same record length: the later definition is the one
		// in force, its data sets must be skipped, not decoded under the older one
		good := model.Template{ID: 400, Fields: []model.FieldSpec{{ID: 8, Len: 4}, {ID: 1, Len: 8}}}
		p.Tpls = append(p.Tpls, Delivery{Proto: p.Proto, Abs: &model.Msg{Proto: mp, Time: 1, Seq: 0, Domain: 1, Sets: g.TemplateSets([]model.Template{good})}})
	}
	p.Tpls = append(p.Tpls, Delivery{Proto: p.Proto, Abs: &model.Msg{Proto: mp, Time: 1, Seq: 1, Domain: 1, Sets: g.TemplateSets(append(append([]model.Template(nil), tpls...), bad))}})
	// M: data sets (and sometimes a template set announcing one more template used later in M)
	m := &model.Msg{Proto: mp, Time: 2, Seq: 2, Domain: 1, SysUp: r.Uint32()}
	ns := 1 + r.Intn(4)
	used := 20
	type inMsgTpl struct {
		at   int // index in m.Sets of the (first) set announcing it
		id   uint16
		body []byte // records of it, as they appear in a data set
	}
	var inMsg []inMsgTpl
	for s := 0; s < ns; s++ {
		if r.Intn(4) == 0 {
			nt := g.Template(uint16(300 + s))
			at := len(m.Sets)
			m.Sets = append(m.Sets, g.TemplateSets([]model.Template{nt})...)
			ds, sz := g.DataSet(&nt, 1+r.Intn(3), 300)
			inMsg = append(inMsg, inMsgTpl{at, nt.ID, model.EncodeRecords(&nt, ds.Recs, mp == "ipfix")})
			m.Sets = append(m.Sets, ds)
			used += sz + 60
			continue
		}
		t := &tpls[r.Intn(len(tpls))]
		ds, sz := g.DataSet(t, 1+r.Intn(8), 1300-used)
		if used+sz > 1380 {
			break
		}
		m.Sets = append(m.Sets, ds)
		used += sz
	}
	if len(m.Sets) == 0 {
		ds, _ := g.DataSet(&tpls[0], 1, 600)
		m.Sets = append(m.Sets, ds)
	}
	p.Msg = Delivery{Proto: p.Proto, Abs: m}
	// undecodable sets: reserved ids, unknown template ids, data for the template with the missing element
	ni := 6
	if tier == "thorough" {
		ni = 30
	}
	for i := 0; i < ni; i++ {
		var s model.Set
		if len(inMsg) > 0 && r.Intn(4) == 0 {
			// a data set for a template that the message itself announces only
			// later: unknown where it stands, it must be skipped - and the data
			// set that follows the announcement must still be decoded
			x := inMsg[r.Intn(len(inMsg))]
			s = model.Set{Kind: model.SetRaw, RawID: x.id, RawBody: append([]byte(nil), x.body...)}
			p.Inserts = append(p.Inserts, C09Insert{Pos: r.Intn(x.at + 1), Set: s, Early: true})
			continue
		}
		switch r.Intn(3) {
		case 0:
			lo := 4
			if p.Proto == pNF9 {
				lo = 2
			}
			s = model.Set{Kind: model.SetRaw, RawID: uint16(lo + r.Intn(256-lo))}
			s.RawBody = make([]byte, r.Intn(48))
			r.Read(s.RawBody)
		case 1:
			s = model.Set{Kind: model.SetRaw, RawID: uint16(1000 + r.Intn(60000))}
			s.RawBody = make([]byte, r.Intn(48))
			r.Read(s.RawBody)
			if r.Intn(2) == 0 {
				// the body looks like a complete data set of a template the exporter
				// has announced (followed by a few more octets)
				t := &tpls[r.Intn(len(tpls))]
				ds, _ := g.DataSet(t, 1+r.Intn(2), 200)
				inner := &model.Msg{Proto: mp, Sets: []model.Set{ds}}
				enc, so := inner.Encode(func(uint16) *model.Template { return t })
				if len(so.Start) == 1 {
					s.RawBody = append(append([]byte(nil), enc[so.Start[0]:so.End[0]]...), s.RawBody[:len(s.RawBody)%12]...)
				}
			}
		default:
			s = model.Set{Kind: model.SetData, TplID: 400}
			n := 1 + r.Intn(3)
			for k := 0; k < n; k++ {
				a, b := make([]byte, 4), make([]byte, 8)
				r.Read(a)
				r.Read(b)
				s.Recs = append(s.Recs, model.Record{Vals: []model.FieldVal{{Raw: a}, {Raw: b}}})
			}
		}
		p.Inserts = append(p.Inserts, C09Insert{Pos: r.Intn(8), Set: s})
	}
	if r.Intn(3) == 0 {
		p.StallProb = []int{100, 1000, 3000}[r.Intn(3)]
	}
	if r.Intn(2) == 0 {
		p.Multi = []int{2, 3, 5, 9, 15, 16, 17, 31, 33, 64, 100, 250}[r.Intn(12)]
	}
	if tier == "thorough" || r.Intn(4) == 0 {
		p.AllOffsets = true
	} else {
		for i := 0; i < 80; i++ {
			p.Offsets = append(p.Offsets, r.Intn(4000))
		}
		p.Offsets = append(p.Offsets, 0, 1, 15, 16, 17, 19, 20, 21, 23, 24, -1, -2, -3, -4, -5)
	}
	return p
}

func genC09For(prop, tier string, seed int64) []byte {
	b, _ := json.Marshal(genC09Plan(seed, tier))
	return b
}

func execC09(t *testing.T, prop string, planJSON []byte, ch *simrt.Choices, trace bool) *RunOut {
	out := &RunOut{Scenario: "c09", PlanJSON: planJSON, Faults: map[string]int{}, Probes: map[string]int{}, PlanHash: planHash(planJSON)}
	var p C09Plan
	if err := json.Unmarshal(planJSON, &p); err != nil {
		out.Inconclusive = "bad-plan"
		return out
	}
	var res *c09Run
	if pv := bubble(t, func() { res = runC09(&p, ch) }); pv != nil {
		out.Violations = append(out.Violations, Violation{Prop: prop, Class: "harness-panic", Key: "harness", Msg: fmt.Sprint(pv)})
		return out
	}
	out.Steps = res.Steps
	out.Choices = ch.Rec
	out.NonTrivial = res.BaseRecs > 0
	out.TraceHash = uint64(res.BaseRecs)<<32 | uint64(res.Len)
	out.Faults["net-truncate"] = res.Truncs
	out.Faults["undecodable-set-inserted"] = res.Inserts
	out.Faults["many-undecodable-sets-in-one-message"] = res.Multi
	out.Probes["base-records"] = res.BaseRecs
	if p.AllOffsets {
		out.Probes["messages-with-every-truncation-offset"]++
	}
	for _, f := range res.Findings {
		out.Violations = append(out.Violations, Violation{Prop: prop, Class: f.Class, Key: f.Key, Msg: f.Msg})
	}
	out.Sample = map[string]interface{}{"scenario": "c09", "proto": p.Proto, "message_octets": res.Len, "records": res.BaseRecs, "inserted_sets_tried": res.Inserts,
		"truncation_offsets_tried": res.Truncs, "all_offsets": p.AllOffsets, "sets_in_message": len(p.Msg.Abs.Sets)}
	return out
}

var scC09 = defScenario(&Scenario{Name: "c09", Gen: genC09For, Exec: execC09})

func init() { register("C09", scC09, 10) }
