//go:build verif

package main

import (
	"encoding/binary"
	"encoding/json"
	"fmt"
	"hash/fnv"
	"math/rand"
	"net"
	"runtime"
	"sort"
	"strings"
	"testing"
	"time"

	"github.com/EdgeCast/vflow/ipfix"
	netflow9 "github.com/EdgeCast/vflow/netflow/v9"
	"github.com/EdgeCast/vflow/verifsim/model"
	"github.com/EdgeCast/vflow/verifsim/simrt"
	"github.com/anishathalye/porcupine"
)

// The cache scenarios drive the template caches through their exported API
// (Decode, Dump, GetCache, IRPC.Get) from several tasks under the seeded
// scheduler and record an invoke/return history per key.

// CacheKeyPlan is one (exporter address, template id) pair.
type CacheKeyPlan struct {
	Addr []byte `json:"addr"`
	ID   uint16 `json:"id"`
}

// CacheOp is one operation of a task.
type CacheOp struct {
	Kind string `json:"kind"` // announce | data | dump | peer
	Key  int    `json:"key"`
	Ver  int    `json:"ver,omitempty"` // announce: version 1..nVersions
}

// CachePlan is a cache history: tasks run their ops in order, concurrently
// with each other.
type CachePlan struct {
	Proto     string         `json:"proto"` // ipfix | nf9
	Keys      []CacheKeyPlan `json:"keys"`
	Tasks     [][]CacheOp    `json:"tasks"`
	KeepBias  int            `json:"keep_bias"`
	DiskChunk int            `json:"disk_chunk"`
	Seq       bool           `json:"sequential"` // single task: exact oracle
	// Ent (IPFIX): an element file with enterprise-specific twins (PEN 29305) of
	// the version elements is installed; version v+100 is version v with the
	// enterprise number of its first (non-scope) field set - same ids, same lengths
	Ent bool `json:"ent,omitempty"`
	Collide   bool           `json:"collide"`    // keys 0 and 1 collide under 32-bit FNV-1
}

const recLen = 12 // every version of every key describes 12-octet records

// octetArray elements of the IANA registry used to encode the version of a
// template in its own definition (any octets decode under them).
var verElems = []uint16{70, 71, 72, 73, 74, 75, 76, 77, 78, 79, 90, 95, 104, 210, 262, 266, 274, 275, 313, 314, 315, 316, 317, 347, 349, 411}

// versionTemplate returns version v (1-based) of the template of a key. Two
// consecutive versions (2k, 2k+1) use the same elements and differ only in
// the field lengths; other pairs differ in the elements as well.
func versionTemplate(id uint16, v int) model.Template {
	if v > 100 {
		t := versionTemplate(id, v-100)
		t.Fields = append([]model.FieldSpec(nil), t.Fields...)
		t.Fields[0].PEN = entPEN
		return t
	}
	e := v / 2
	if id == optionsShapeID {
		// an options template: five one-octet scope fields (a specifier slice
		// built by appending one at a time ends up with spare capacity) and
		// two option fields that carry the version
		// versions come in groups of three: 3k and 3k+1 differ only in the
		// lengths of the option fields, 3k+2 differs from 3k only in one scope
		// element (counts, lengths and option fields are the same)
		const scopeN = 5
		total := recLen - scopeN
		g, variant := v/3, v%3
		a := 1 + (g*5)%(total-1)
		if variant == 1 {
			a = 1 + (g*5+3)%(total-1)
		}
		t := model.Template{ID: id, Options: true}
		for i := 0; i < scopeN; i++ {
			t.Scope = append(t.Scope, model.FieldSpec{ID: verElems[len(verElems)-1-i], Len: 1})
		}
		if variant == 2 {
			t.Scope[g%scopeN].ID = verElems[(g+3)%10]
		}
		t.Fields = []model.FieldSpec{{ID: verElems[g%len(verElems)], Len: uint16(a)}, {ID: verElems[(g/len(verElems)+g+7)%len(verElems)], Len: uint16(total - a)}}
		return t
	}
	a := 1 + (v*5)%11
	return model.Template{ID: id, Fields: []model.FieldSpec{{ID: verElems[e%len(verElems)], Len: uint16(a)}, {ID: verElems[(e/len(verElems)+e+7)%len(verElems)], Len: uint16(recLen - a)}}}
}

// entPEN: the enterprise number of the twins of the version elements.
const entPEN = 29305

// optionsShapeID: keys with this template id use options templates.
const optionsShapeID = 300

// versionOfFields identifies the version from the complete specifier list
// (scope fields first).
func versionOfFields(ids []uint16, lens []uint16, pens []uint32, id uint16) int {
	for _, base := range []int{0, 100} {
		for v := base + 1; v <= base+40; v++ {
			t := versionTemplate(id, v)
			all := t.AllFields()
			if len(ids) != len(all) || len(lens) != len(all) || len(pens) != len(all) {
				continue
			}
			same := true
			for i := range all {
				if ids[i] != all[i].ID || lens[i] != all[i].Len || pens[i] != all[i].PEN {
					same = false
				}
			}
			if same {
				return v
			}
		}
	}
	return -1
}

func fnv1(addr []byte, id uint16) uint32 {
	b := make([]byte, 2)
	binary.BigEndian.PutUint16(b, id)
	h := fnv.New32()
	h.Write(addr)
	h.Write(b)
	return h.Sum32()
}

// findCollision searches randomly drawn (IPv4 address, id) keys for a pair
// with equal 32-bit FNV-1 sums (birthday search).
func findCollision(r *rand.Rand) (CacheKeyPlan, CacheKeyPlan, bool) {
	seen := map[uint32]CacheKeyPlan{}
	for i := 0; i < 400000; i++ {
		k := CacheKeyPlan{Addr: []byte{10, byte(r.Intn(256)), byte(r.Intn(256)), byte(r.Intn(256))}, ID: uint16(256 + r.Intn(2000))}
		h := fnv1(k.Addr, k.ID)
		if o, ok := seen[h]; ok && (string(o.Addr) != string(k.Addr) || o.ID != k.ID) {
			return o, k, true
		}
		seen[h] = k
	}
	return CacheKeyPlan{}, CacheKeyPlan{}, false
}

// CacheEvent is one completed operation in the recorded history.
type CacheEvent struct {
	Task   int
	Kind   string
	Key    int
	In     int // announce: version written
	Out    int // observed version: 0 none, -1 not an announced version (torn / foreign)
	Call   int64
	Ret    int64
	Detail string
}

type cacheRun struct {
	Unfinished bool
	Events  []CacheEvent
	Panic   string
	Stack   string
	Steps   uint64
	Hash    uint64
	Proj    uint64
	Dumps   int
	DumpErr []string
	Choices []simrt.Choice
	Trace   []TraceStep
	Stats   simrt.Stats
	Overlap map[string]int
}

func flowMsgBytes(proto string, sets []model.Set, tpl *model.Template, seq uint32) []byte {
	mp := "ipfix"
	if proto == pNF9 {
		mp = "nf9"
	}
	m := &model.Msg{Proto: mp, Time: 1, Seq: seq, Domain: 1, Sets: sets}
	b, _ := m.Encode(func(uint16) *model.Template { return tpl })
	return b
}

// cacheAPI abstracts the two cache implementations.
type cacheAPI struct {
	proto string
	ic    ipfix.MemCache
	nc    netflow9.MemCache
	rpc   *ipfix.IRPC // the one peer-lookup service object of the run (vFlow registers one per process)
}

func (c *cacheAPI) announce(k CacheKeyPlan, v int, seq uint32) {
	t := versionTemplate(k.ID, v)
	kind := model.SetTemplate
	if t.Options {
		kind = model.SetOptions
	}
	body := flowMsgBytes(c.proto, []model.Set{{Kind: kind, Tpls: []model.Template{t}}}, nil, seq)
	ip := net.IP(append([]byte(nil), k.Addr...))
	if c.proto == pIPFIX {
		ipfix.NewDecoder(ip, body).Decode(c.ic)
	} else {
		netflow9.NewDecoder(ip, body).Decode(c.nc)
	}
}

// foreign sends template records without fields from an address that owns no key.
func (c *cacheAPI) foreign(keys []CacheKeyPlan, who, what int, seq uint32) {
	ip := net.IP{203, 0, 113, byte(200 + who%50)}
	for _, k := range keys {
		if net.IP(k.Addr).Equal(ip) {
			return
		}
	}
	odd := []uint16{2, 3, 0, 1, 4, 255, keys[who%len(keys)].ID}
	id := odd[what%len(odd)]
	rec := []byte{byte(id >> 8), byte(id), 0, 0}
	setID := uint16(2)
	if what%2 == 1 {
		setID = 3
		rec = append(rec, 0, 0)
	}
	if id == 3 {
		setID, rec = 3, []byte{0, 3, 0, 0, 0, 0}
	}
	var body []byte
	if c.proto == pIPFIX {
		body = ipfixMsg(seq, ipfixSet(setID, rec))
		ipfix.NewDecoder(ip, body).Decode(c.ic)
	} else {
		body = nf9Msg(seq, ipfixSet(setID-2, rec))
		netflow9.NewDecoder(ip, body).Decode(c.nc)
	}
}

// lookup decodes a 12-octet record for the key and reports which version of
// the template was applied (0: unknown template).
func (c *cacheAPI) lookup(k CacheKeyPlan, seq uint32) (int, string) {
	rec := model.Record{Vals: []model.FieldVal{{Raw: []byte{1, 2, 3, 4, 5, 6, 7, 8, 9, 10, 11, 12}}}}
	body := flowMsgBytes(c.proto, []model.Set{{Kind: model.SetData, TplID: k.ID, Recs: []model.Record{rec}}}, nil, seq)
	ip := net.IP(append([]byte(nil), k.Addr...))
	var ids, lens []uint16
	var pens []uint32
	var errs string
	n := 0
	vlen := func(v interface{}) uint16 {
		if b, ok := v.([]byte); ok {
			return uint16(len(b))
		}
		return 0xffff
	}
	if c.proto == pIPFIX {
		m, err := ipfix.NewDecoder(ip, body).Decode(c.ic)
		if err != nil {
			errs = err.Error()
		}
		if m != nil {
			n = len(m.DataSets)
			if n > 0 {
				for _, f := range m.DataSets[0] {
					ids = append(ids, f.ID)
					lens = append(lens, vlen(f.Value))
					pens = append(pens, f.EnterpriseNo)
				}
			}
		}
	} else {
		m, err := netflow9.NewDecoder(ip, body).Decode(c.nc)
		if err != nil {
			errs = err.Error()
		}
		if m != nil {
			n = len(m.DataSets)
			if n > 0 {
				for _, f := range m.DataSets[0] {
					ids = append(ids, f.ID)
					lens = append(lens, vlen(f.Value))
					pens = append(pens, 0)
				}
			}
		}
	}
	if n == 0 {
		if strings.Contains(errs, "unknown") {
			return 0, errs
		}
		return 0, "no records: " + errs
	}
	if n != 1 {
		return -1, fmt.Sprintf("%d records decoded from one 12-octet record", n)
	}
	v := versionOfFields(ids, lens, pens, k.ID)
	if v < 0 {
		return -1, fmt.Sprintf("decoded with fields %v of lengths %v (enterprise numbers %v), not a version of this key", ids, lens, pens)
	}
	return v, ""
}

func (c *cacheAPI) peer(k CacheKeyPlan) (int, string) {
	if c.proto != pIPFIX {
		return 0, ""
	}
	var tr ipfix.TemplateRecord
	if c.rpc == nil {
		c.rpc = ipfix.NewRPC(c.ic)
	}
	err := c.rpc.Get(ipfix.RPCRequest{ID: k.ID, IP: net.IP(append([]byte(nil), k.Addr...))}, &tr)
	if err != nil {
		return 0, err.Error()
	}
	var ids, lens []uint16
	var pens []uint32
	for _, f := range tr.ScopeFieldSpecifiers {
		ids = append(ids, f.ElementID)
		lens = append(lens, f.Length)
		pens = append(pens, f.EnterpriseNo)
	}
	for _, f := range tr.FieldSpecifiers {
		ids = append(ids, f.ElementID)
		lens = append(lens, f.Length)
		pens = append(pens, f.EnterpriseNo)
	}
	if tr.TemplateID != k.ID || int(tr.FieldCount) != len(ids) || int(tr.ScopeFieldCount) != len(tr.ScopeFieldSpecifiers) {
		return -1, fmt.Sprintf("peer lookup returned template id %d with %d/%d fields (%d/%d scope)", tr.TemplateID, tr.FieldCount, len(ids), tr.ScopeFieldCount, len(tr.ScopeFieldSpecifiers))
	}
	v := versionOfFields(ids, lens, pens, k.ID)
	if v < 0 {
		return -1, fmt.Sprintf("peer lookup returned fields %v lens %v enterprise numbers %v: not an announced version", ids, lens, pens)
	}
	return v, ""
}

func (c *cacheAPI) dump(path string) error {
	if c.proto == pIPFIX {
		return c.ic.Dump(path)
	}
	return c.nc.Dump(path)
}

// dumpFile is the on-disk document of both caches.
type dumpFile struct {
	Cache []*struct {
		Templates map[string]struct {
			Template struct {
				TemplateID           uint16
				FieldCount           uint16
				FieldSpecifiers []struct {
					ElementID, Length uint16
					EnterpriseNo      uint32
				}
				ScopeFieldCount      uint16
				ScopeFieldSpecifiers []struct {
					ElementID, Length uint16
					EnterpriseNo      uint32
				}
			}
			Timestamp int64
		}
	}
	ShardNo int
}

// dumpVersions maps every key of the plan to the version found in a dump file
// (0: absent, -1: present but not a complete announced version).
func dumpVersions(b []byte, keys []CacheKeyPlan) ([]int, string) {
	var df dumpFile
	if err := json.Unmarshal(b, &df); err != nil {
		return nil, "dump file is not valid JSON: " + err.Error()
	}
	if df.ShardNo != 32 || len(df.Cache) != 32 {
		return nil, fmt.Sprintf("dump file has ShardNo=%d and %d shards", df.ShardNo, len(df.Cache))
	}
	out := make([]int, len(keys))
	for i, k := range keys {
		h := fnv1(k.Addr, k.ID)
		sh := df.Cache[h%32]
		if sh == nil {
			return nil, "dump file has a null shard"
		}
		e, ok := sh.Templates[fmt.Sprint(h)]
		if !ok {
			continue
		}
		var ids, lens []uint16
		var pens []uint32
		for _, f := range e.Template.ScopeFieldSpecifiers {
			ids = append(ids, f.ElementID)
			lens = append(lens, f.Length)
			pens = append(pens, f.EnterpriseNo)
		}
		for _, f := range e.Template.FieldSpecifiers {
			ids = append(ids, f.ElementID)
			lens = append(lens, f.Length)
			pens = append(pens, f.EnterpriseNo)
		}
		v := versionOfFields(ids, lens, pens, e.Template.TemplateID)
		if v < 0 {
			out[i] = -1
		} else if e.Template.TemplateID != k.ID {
			out[i] = -2 // a complete template, but of another key (hash collision)
		} else {
			out[i] = v
		}
	}
	return out, ""
}

func runCache(p *CachePlan, ch *simrt.Choices, trace bool) *cacheRun {
	res := &cacheRun{Overlap: map[string]int{}}
	sim := simrt.New(ch)
	defer sim.Close()
	sim.TraceOn = trace
	ch.KeepBias = p.KeepBias
	sim.FS.Chunk = p.DiskChunk
	resetGlobals(&NodeCfg{CapUDP: 1, CapMQ: 1, CapMirror: 1})
	if p.Ent {
		// through the real load path: the registry plus enterprise twins of the version elements
		im := model.Snapshot()
		for _, id := range verElems {
			im[model.ElemKey{PEN: entPEN, ID: id}] = model.Element{PEN: entPEN, ID: id, Name: fmt.Sprintf("verifTwin%d", id), Type: "octetArray"}
		}
		sim.FS.Put(confDir+"/ipfix.elements", model.ElementsYAML(im))
		ipfix.LoadExtElements(confDir)
	}
	api := &cacheAPI{proto: p.Proto}
	if p.Proto == pIPFIX {
		api.ic = ipfix.GetCache("/none")
		api.rpc = ipfix.NewRPC(api.ic)
	} else {
		api.nc = netflow9.GetCache("/none")
	}
	var ev int64
	running := 0
	active := map[int]string{} // task -> kind of the op in progress
	for ti, ops := range p.Tasks {
		ti, ops := ti, ops
		running++
		sim.GoNamed(fmt.Sprintf("cache-task-%d", ti), false, func() {
			defer func() { running-- }()
			for oi, op := range ops {
				if op.Kind == "sleep" {
					// simulated seconds pass (anything the cache does "at most once
					// per second", or by the age of an entry, gets its chance)
					// Ver > 0: a long silence of that many seconds instead (hours, days)
					if op.Ver > 0 {
						simrt.Sleep(time.Duration(op.Ver) * time.Second)
					} else {
						simrt.Sleep(1100 * time.Millisecond)
					}
					simrt.Yield(-40)
					continue
				}
				if op.Kind == "foreign" {
					// an exporter that owns none of the keys sends template records
					// with unusual ids and no fields (set ids, ids below 256, ids of the
					// keys): whatever the cache makes of them, the keys are not its
					api.foreign(p.Keys, op.Key, op.Ver, uint32(ti*1000+oi))
					simrt.Yield(-40)
					continue
				}
				k := p.Keys[op.Key%len(p.Keys)]
				e := CacheEvent{Task: ti, Kind: op.Kind, Key: op.Key % len(p.Keys), In: op.Ver}
				ev++
				e.Call = ev
				active[ti] = op.Kind
				for o, kind := range active {
					if o != ti && kind != "" {
						a, b := op.Kind, kind
						if a > b {
							a, b = b, a
						}
						res.Overlap[a+"|"+b]++
					}
				}
				seq := uint32(ti*1000 + oi)
				switch op.Kind {
				case "announce":
					api.announce(k, op.Ver, seq)
				case "data":
					e.Out, e.Detail = api.lookup(k, seq)
				case "peer":
					e.Out, e.Detail = api.peer(k)
				case "dump":
					path := fmt.Sprintf("/dump/%d-%d", ti, oi)
					if err := api.dump(path); err != nil {
						e.Detail = "dump error: " + err.Error()
						e.Out = -9
					} else {
						e.Detail = path
					}
					res.Dumps++
				}
				active[ti] = ""
				ev++
				e.Ret = ev
				res.Events = append(res.Events, e)
				simrt.Yield(-40)
			}
		})
	}
	sim.OnIdle = func() bool { return running == 0 }
	sim.IdleLimit = 2000 * 24 * time.Hour // silences of hours and days are part of the histories
	sim.Run()
	res.Unfinished = running != 0
	if t := sim.Panicked; t != nil {
		res.Panic = fmt.Sprint(t.Panic)
		res.Stack = t.Stack
	}
	// expand dumps into per-key reads
	var extra []CacheEvent
	for i := range res.Events {
		e := &res.Events[i]
		if e.Kind != "dump" || e.Out == -9 {
			continue
		}
		b, ok := sim.FS.Get(e.Detail)
		if !ok {
			res.DumpErr = append(res.DumpErr, "dump file missing: "+e.Detail)
			continue
		}
		vers, msg := dumpVersions(b, p.Keys)
		if msg != "" {
			res.DumpErr = append(res.DumpErr, msg)
			continue
		}
		// every dump must load back
		for ki, v := range vers {
			extra = append(extra, CacheEvent{Task: e.Task, Kind: "dump-read", Key: ki, Out: v, Call: e.Call, Ret: e.Ret, Detail: e.Detail})
		}
	}
	res.Events = append(res.Events, extra...)
	res.Steps, res.Hash, res.Proj = sim.Seq, sim.TraceHash, sim.ProjHash
	res.Choices = ch.Rec
	res.Stats = sim.Stats
	if trace {
		res.Trace = traceOf(sim)
	}
	sim.Teardown()
	return res
}

// ---------------------------------------------------------------- oracles

type regIn struct {
	Write bool
	Val   int
}

// registerModel: per key, a register holding the latest announced version.
var registerModel = porcupine.Model{
	Init: func() interface{} { return 0 },
	Step: func(state, input, output interface{}) (bool, interface{}) {
		in := input.(regIn)
		if in.Write {
			return true, in.Val
		}
		return output.(int) == state.(int), state
	},
	DescribeOperation: func(input, output interface{}) string {
		in := input.(regIn)
		if in.Write {
			return fmt.Sprintf("announce(v%d)", in.Val)
		}
		return fmt.Sprintf("read -> v%d", output.(int))
	},
}

func checkCacheHistory(prop string, p *CachePlan, res *cacheRun, out *RunOut) {
	if res.Panic != "" {
		out.Violations = append(out.Violations, Violation{Prop: prop, Class: "panic", Key: panicKey(res.Stack, res.Panic),
			Msg: "a cache operation panicked: " + res.Panic + "\n" + trimStack(res.Stack)})
		return
	}
	for _, m := range res.DumpErr {
		out.Violations = append(out.Violations, Violation{Prop: prop, Class: "dump-unloadable", Key: normKey(m), Msg: "a dump taken during the run does not load back: " + m})
		return
	}
	collide := func(k int) bool {
		for o := range p.Keys {
			if o != k && fnv1(p.Keys[o].Addr, p.Keys[o].ID) == fnv1(p.Keys[k].Addr, p.Keys[k].ID) {
				return true
			}
		}
		return false
	}
	byKey := map[int][]porcupine.Operation{}
	for _, e := range res.Events {
		switch e.Kind {
		case "announce":
			byKey[e.Key] = append(byKey[e.Key], porcupine.Operation{ClientId: e.Task, Input: regIn{true, e.In}, Call: e.Call, Output: 0, Return: e.Ret})
		case "data", "peer", "dump-read":
			if e.Out < 0 {
				key := e.Kind + ": incomplete or foreign template"
				if collide(e.Key) {
					key = e.Kind + ": fnv-collision: template of another exporter/id applied"
				}
				out.Violations = append(out.Violations, Violation{Prop: prop, Class: "wrong-template", Key: key,
					Msg: fmt.Sprintf("task %d %s on key %d (%x/%d) observed something that is not a complete announced version of that key: %s", e.Task, e.Kind, e.Key, p.Keys[e.Key].Addr, p.Keys[e.Key].ID, e.Detail)})
				return
			}
			byKey[e.Key] = append(byKey[e.Key], porcupine.Operation{ClientId: e.Task, Input: regIn{false, 0}, Call: e.Call, Output: e.Out, Return: e.Ret})
		}
	}
	keys := make([]int, 0, len(byKey))
	for k := range byKey {
		keys = append(keys, k)
	}
	sort.Ints(keys)
	for _, k := range keys {
		ops := byKey[k]
		// porcupine wants distinct client ids per concurrent operation: dump-reads
		// share their task's interval with nothing else of that task, fine.
		r := porcupine.CheckOperationsTimeout(registerModel, ops, 20*time.Second)
		switch r {
		case porcupine.Illegal:
			key := "history not linearizable"
			if collide(k) {
				key = "fnv-collision: history not linearizable"
			}
			out.Violations = append(out.Violations, Violation{Prop: prop, Class: "not-linearizable", Key: key,
				Msg: fmt.Sprintf("operations on key %d (%x/%d) admit no linearization against 'latest announcement wins':\n%s", k, p.Keys[k].Addr, p.Keys[k].ID, describeOps(ops))})
			return
		case porcupine.Unknown:
			out.Inconclusive = "porcupine-timeout"
		}
	}
}

func describeOps(ops []porcupine.Operation) string {
	sort.Slice(ops, func(i, j int) bool { return ops[i].Call < ops[j].Call })
	var sb strings.Builder
	for i, o := range ops {
		if i > 40 {
			sb.WriteString("  ...\n")
			break
		}
		fmt.Fprintf(&sb, "  task %d [%d,%d] %s\n", o.ClientId, o.Call, o.Return, registerModel.DescribeOperation(o.Input, o.Output))
	}
	return sb.String()
}

// ---------------------------------------------------------------- generation

func genCachePlan(seed int64, prop, tier string) *CachePlan {
	r := rand.New(rand.NewSource(seed))
	p := &CachePlan{Proto: []string{pIPFIX, pNF9}[r.Intn(2)], KeepBias: []int{0, 0, 300, 800}[r.Intn(4)], DiskChunk: []int{0, 64, 1000}[r.Intn(3)]}
	nKeys := 1 + r.Intn(4)
	if prop == "C04" && r.Intn(3) == 0 {
		if a, b, ok := findCollision(r); ok {
			p.Keys = append(p.Keys, a, b)
			p.Collide = true
		}
	}
	ids := []uint16{256, 257, 300}
	for len(p.Keys) < nKeys {
		// shared ids across exporters, shared exporters across ids
		k := CacheKeyPlan{Addr: genAddr(r, false), ID: ids[r.Intn(len(ids))]}
		if len(p.Keys) > 0 && r.Intn(2) == 0 {
			k.Addr = p.Keys[r.Intn(len(p.Keys))].Addr
		}
		dup := false
		for _, o := range p.Keys {
			if string(o.Addr) == string(k.Addr) && o.ID == k.ID {
				dup = true
			}
		}
		if !dup {
			p.Keys = append(p.Keys, k)
		}
	}
	if prop == "C04" && r.Intn(2) == 0 {
		p.Seq = true
	}
	nTasks := 2 + r.Intn(5)
	if p.Seq {
		nTasks = 1
	}
	p.Ent = p.Proto == pIPFIX && r.Intn(3) == 0
	nextVer := 1
	sleepy := r.Intn(3) == 0 // a third of the histories spread over several simulated seconds
	lastVer := map[int]int{}
	totalOps := 0
	budget := 60
	for t := 0; t < nTasks; t++ {
		var ops []CacheOp
		role := r.Intn(10)
		n := 2 + r.Intn(10)
		if p.Seq {
			n = 10 + r.Intn(30)
			role = 0
		}
		for i := 0; i < n && totalOps < budget; i++ {
			k := r.Intn(len(p.Keys))
			var op CacheOp
			switch {
			case role < 6: // decoder
				if r.Intn(3) == 0 {
					if v, ok := lastVer[k]; ok && p.Ent && r.Intn(3) == 0 {
						// the same definition with the enterprise number of one element changed
						nv := v + 100
						if v > 100 {
							nv = v - 100
						}
						op = CacheOp{Kind: "announce", Key: k, Ver: nv}
						lastVer[k] = nv
					} else if v, ok := lastVer[k]; ok && v < 100 && p.Keys[k].ID == optionsShapeID && v%3 == 0 && v+2 <= 38 && r.Intn(2) == 0 {
						// the same options template with one scope element changed
						op = CacheOp{Kind: "announce", Key: k, Ver: v + 2}
						lastVer[k] = v + 2
					} else if v, ok := lastVer[k]; ok && r.Intn(4) == 0 {
						// the periodic refresh: the exporter announces the
						// definition it announced last once more, unchanged
						op = CacheOp{Kind: "announce", Key: k, Ver: v}
					} else {
						op = CacheOp{Kind: "announce", Key: k, Ver: nextVer}
						lastVer[k] = nextVer
						nextVer++
					}
				} else {
					op = CacheOp{Kind: "data", Key: k}
				}
				if p.Seq && r.Intn(8) == 0 {
					op = CacheOp{Kind: "dump"}
				}
			case role < 8: // dumper
				op = CacheOp{Kind: "dump"}
				if r.Intn(3) == 0 {
					op = CacheOp{Kind: "data", Key: k}
				}
			default: // peer
				op = CacheOp{Kind: "peer", Key: k}
				if p.Proto != pIPFIX {
					op.Kind = "data"
				}
			}
			if nextVer > 38 && op.Kind == "announce" {
				op.Kind = "data"
			}
			if r.Intn(12) == 0 {
				ops = append(ops, CacheOp{Kind: "foreign", Key: r.Intn(50), Ver: r.Intn(14)})
			}
			if sleepy && r.Intn(6) == 0 {
				ops = append(ops, CacheOp{Kind: "sleep", Ver: []int{0, 0, 0, 3700, 7300, 90000, 40 * 86400}[r.Intn(7)]})
			}
			ops = append(ops, op)
			totalOps++
		}
		p.Tasks = append(p.Tasks, ops)
	}
	return p
}

func genCacheFor(prop, tier string, seed int64) []byte {
	b, _ := json.Marshal(genCachePlan(seed, prop, tier))
	return b
}

func execCache(t *testing.T, prop string, planJSON []byte, ch *simrt.Choices, trace bool) *RunOut {
	out := &RunOut{Scenario: "cache", PlanJSON: planJSON, Faults: map[string]int{}, Probes: map[string]int{}, PlanHash: planHash(planJSON)}
	var p CachePlan
	if err := json.Unmarshal(planJSON, &p); err != nil {
		out.Inconclusive = "bad-plan"
		return out
	}
	var res *cacheRun
	raceMark := raceLogMark()
	if pv := bubble(t, func() { res = runCache(&p, ch, trace) }); pv != nil {
		out.Violations = append(out.Violations, Violation{Prop: prop, Class: "harness-panic", Key: "harness", Msg: fmt.Sprint(pv)})
		return out
	}
	out.Choices, out.Trace, out.Steps = res.Choices, res.Trace, res.Steps
	out.TraceHash, out.ProjHash = res.Hash, res.Proj
	out.NonTrivial = len(res.Events) > 0
	out.Faults["preemption"] = int(res.Stats.Preemptions)
	for k, v := range res.Overlap {
		out.Probes["overlap:"+k] += v
	}
	out.Probes["dumps"] = res.Dumps
	out.Probes["ops"] = len(res.Events)
	if p.Collide {
		out.Probes["fnv-collision-pair-used"]++
	}
	checkCacheHistory(prop, &p, res, out)
	if res.Unfinished && res.Panic == "" && len(out.Violations) == 0 && out.Inconclusive == "" {
		out.Inconclusive = "scenario-did-not-finish"
	}
	if simrt.RaceBuild && (prop == "C10" || prop == "C15") {
		checkRaceLog(prop, raceMark, out, cacheRaceScope)
	}
	out.Sample = map[string]interface{}{"scenario": "cache", "proto": p.Proto, "keys": len(p.Keys), "tasks": len(p.Tasks), "events": len(res.Events),
		"first_events": firstEvents(res.Events, 8), "steps": res.Steps, "preemptions": res.Stats.Preemptions, "race_build": simrt.RaceBuild}
	return out
}

func firstEvents(ev []CacheEvent, n int) []string {
	var out []string
	for i, e := range ev {
		if i >= n {
			break
		}
		out = append(out, fmt.Sprintf("task%d [%d,%d] %s key%d in=v%d out=v%d", e.Task, e.Call, e.Ret, e.Kind, e.Key, e.In, e.Out))
	}
	return out
}

func shrinkCache(planJSON []byte) [][]byte {
	var p CachePlan
	if json.Unmarshal(planJSON, &p) != nil {
		return nil
	}
	var out [][]byte
	emit := func(q *CachePlan) {
		b, _ := json.Marshal(q)
		out = append(out, b)
	}
	// drop a task
	for i := range p.Tasks {
		if len(p.Tasks) > 1 {
			q := p
			q.Tasks = append(append([][]CacheOp(nil), p.Tasks[:i]...), p.Tasks[i+1:]...)
			emit(&q)
		}
	}
	// drop ops (halves then singles)
	for ti := range p.Tasks {
		n := len(p.Tasks[ti])
		for chunk := n / 2; chunk >= 1; chunk /= 2 {
			for s := 0; s < n; s += chunk {
				e := s + chunk
				if e > n {
					e = n
				}
				q := p
				q.Tasks = append([][]CacheOp(nil), p.Tasks...)
				q.Tasks[ti] = append(append([]CacheOp(nil), p.Tasks[ti][:s]...), p.Tasks[ti][e:]...)
				emit(&q)
			}
			if chunk == 1 {
				break
			}
		}
	}
	return out
}

var scCache = defScenario(&Scenario{Name: "cache", Gen: genCacheFor, Exec: execCache, Shrink: shrinkCache})

func init() {
	register("C10", scCache, 10)
	register("C04", scCache, 10)
}

var _ = runtime.GOOS
