//go:build verif

package main

import (
	"strconv"
	"regexp"
	"time"
	"encoding/binary"
	"bytes"
	"encoding/json"
	"fmt"
	"math/rand"
	"net"
	"runtime"
	"strings"
	"syscall"
	"testing"

	"github.com/EdgeCast/vflow/ipfix"
	netflow9 "github.com/EdgeCast/vflow/netflow/v9"
	"github.com/EdgeCast/vflow/verifsim/model"
	"github.com/EdgeCast/vflow/verifsim/simrt"
)

// Cache-file scenario (C11): build a cache by decoding template messages,
// Dump it to the simulated disk, then load every crash prefix / corruption of
// the file and check that loading never crashes, the cache stays usable and
// contains only templates that were saved.

// FilePlan is one cache-file run.
type FilePlan struct {
	Proto     string         `json:"proto"`
	Exporters []ExporterPlan `json:"exporters"`
	Announce  []Delivery     `json:"announce"` // template messages, in order
	Probes    []Delivery     `json:"probes"`   // one data message per saved key
	// second generation: the cache is loaded from the saved file, a few
	// templates are announced again (unchanged, or with one specifier
	// changed), it is saved over the same file and loaded once more
	Gen2Announce []Delivery    `json:"gen2_announce,omitempty"`
	Gen2Probes   []Delivery    `json:"gen2_probes,omitempty"`
	ExtElements  bool          `json:"ext_elements"`
	// a large deployment: Bulk further exporters each announce one template of
	// BulkFields specifiers before the cache is saved (built at run time, the
	// plan stays small); such a run saves and loads the file a few times only
	// simulated time that passes between the last announcement and the save,
	// and between the save and the load (seconds): hours, days
	// Gen2Skew: seconds added to every timestamp in the saved file before the
	// second generation loads it (the file was written by a host whose clock
	// was ahead or behind, or the clock was set between the save and the start)
	Gen2Skew int64 `json:"gen2_skew,omitempty"`
	AgeSec  int64 `json:"age_sec,omitempty"`
	DownSec int64 `json:"down_sec,omitempty"`
	Bulk    int   `json:"bulk,omitempty"`
	BulkFields int `json:"bulk_fields,omitempty"`
	Prefixes     []int         `json:"prefixes"` // explicit prefix lengths (negative: from the end); empty with AllPrefixes
	AllPrefixes  bool          `json:"all_prefixes"`
	Corrupt      []FileCorrupt `json:"corrupt"`
	Seed         int64         `json:"seed"`
}

// FileCorrupt is one corruption of the valid file.
type FileCorrupt struct {
	Kind string `json:"kind"` // flip | delete | insert | tail-zero | tail-garbage | struct | absent | empty | unreadable
	Off  int    `json:"off"`
	Len  int    `json:"len"`
	Val  []byte `json:"val,omitempty"`
	Edit string `json:"edit,omitempty"` // struct: name of the structural edit
}

type fileAPI struct {
	proto string
	ic    ipfix.MemCache
	nc    netflow9.MemCache
}

func (a *fileAPI) load(path string) {
	if a.proto == pIPFIX {
		a.ic = ipfix.GetCache(path)
	} else {
		a.nc = netflow9.GetCache(path)
	}
}

func (a *fileAPI) decode(ip net.IP, body []byte) (int, []byte, string) {
	if a.proto == pIPFIX {
		m, err := ipfix.NewDecoder(ip, body).Decode(a.ic)
		es := ""
		if err != nil {
			es = err.Error()
		}
		if m == nil || len(m.DataSets) == 0 {
			return 0, nil, es
		}
		b, e2 := m.JSONMarshal(new(bytes.Buffer))
		if e2 != nil {
			return len(m.DataSets), nil, e2.Error()
		}
		return len(m.DataSets), append([]byte(nil), b...), es
	}
	m, err := netflow9.NewDecoder(ip, body).Decode(a.nc)
	es := ""
	if err != nil {
		es = err.Error()
	}
	if m == nil || len(m.DataSets) == 0 {
		return 0, nil, es
	}
	b, e2 := m.JSONMarshal(new(bytes.Buffer))
	if e2 != nil {
		return len(m.DataSets), nil, e2.Error()
	}
	return len(m.DataSets), append([]byte(nil), b...), es
}

func (a *fileAPI) dump(path string) error {
	if a.proto == pIPFIX {
		return a.ic.Dump(path)
	}
	return a.nc.Dump(path)
}

type fileFinding struct {
	Class string
	Key   string
	Msg   string
}

type fileRun struct {
	Unfinished bool
	File     []byte
	Variants int
	Loaded   int // variants in which at least one saved key was still known
	Findings []fileFinding
	Kinds    map[string]int
	Steps    uint64
}

var reTimestamp = regexp.MustCompile(`"Timestamp":-?\d+`)

// structEdits are structure-level corruptions of the parsed document.
var structEdits = []string{"cache-null", "cache-empty", "cache-short", "cache-long", "shard-null", "templates-null", "shardno-wrong", "shardno-string",
	"shardno-negative", "shardno-huge", "cache-object", "template-null", "fieldspecs-null", "fieldcount-huge", "key-not-number", "dup-keys", "deep-nesting", "top-array", "extra-fields"}

// firstKey returns the smallest key (no dependence on map iteration order).
func firstKey(m map[string]interface{}) string {
	best := ""
	for k := range m {
		if best == "" || k < best {
			best = k
		}
	}
	return best
}

func applyStructEdit(valid []byte, edit string, r *rand.Rand) []byte {
	var doc map[string]interface{}
	if json.Unmarshal(valid, &doc) != nil {
		return valid
	}
	cache, _ := doc["Cache"].([]interface{})
	pickShard := func() (map[string]interface{}, int) {
		// prefer a non-empty shard
		for tries := 0; tries < 64; tries++ {
			i := r.Intn(len(cache))
			if sh, ok := cache[i].(map[string]interface{}); ok {
				if t, ok := sh["Templates"].(map[string]interface{}); ok && (len(t) > 0 || tries > 40) {
					return sh, i
				}
			}
		}
		return nil, -1
	}
	switch edit {
	case "cache-null":
		doc["Cache"] = nil
	case "cache-empty":
		doc["Cache"] = []interface{}{}
	case "cache-short":
		if len(cache) > 1 {
			doc["Cache"] = cache[:r.Intn(len(cache))]
		}
	case "cache-long":
		doc["Cache"] = append(cache, cache[0], cache[0])
	case "shard-null":
		if len(cache) > 0 {
			cache[r.Intn(len(cache))] = nil
		}
	case "templates-null":
		if sh, _ := pickShard(); sh != nil {
			sh["Templates"] = nil
		}
	case "shardno-wrong":
		doc["ShardNo"] = 16
	case "shardno-string":
		doc["ShardNo"] = "32"
	case "shardno-negative":
		doc["ShardNo"] = -32
	case "shardno-huge":
		doc["ShardNo"] = 1e30
	case "cache-object":
		doc["Cache"] = map[string]interface{}{"0": cache}
	case "template-null":
		if sh, _ := pickShard(); sh != nil {
			t := sh["Templates"].(map[string]interface{})
			if k := firstKey(t); k != "" {
				t[k] = nil
			}
		}
	case "fieldspecs-null":
		if sh, _ := pickShard(); sh != nil {
			t := sh["Templates"].(map[string]interface{})
			if e, ok := t[firstKey(t)].(map[string]interface{}); ok {
				if tp, ok := e["Template"].(map[string]interface{}); ok {
					tp["FieldSpecifiers"] = nil
					tp["ScopeFieldSpecifiers"] = nil
				}
			}
		}
	case "fieldcount-huge":
		if sh, _ := pickShard(); sh != nil {
			t := sh["Templates"].(map[string]interface{})
			if e, ok := t[firstKey(t)].(map[string]interface{}); ok {
				if tp, ok := e["Template"].(map[string]interface{}); ok {
					tp["FieldCount"] = 65535
					tp["ScopeFieldCount"] = 65535
				}
			}
		}
	case "key-not-number":
		if sh, _ := pickShard(); sh != nil {
			t := sh["Templates"].(map[string]interface{})
			if k := firstKey(t); k != "" {
				v := t[k]
				delete(t, k)
				t["not-a-number"] = v
			}
		}
	case "dup-keys":
		s := string(valid)
		if i := strings.Index(s, `"ShardNo"`); i > 0 {
			return []byte(s[:i] + `"ShardNo":1,` + s[i:])
		}
	case "deep-nesting":
		return []byte(strings.Repeat(`{"Cache":[`, 2000) + strings.Repeat(`]}`, 2000))
	case "top-array":
		return []byte("[" + string(valid) + "]")
	case "extra-fields":
		doc["Extra"] = map[string]interface{}{"x": []interface{}{1, 2, 3}}
	}
	b, err := json.Marshal(doc)
	if err != nil {
		return valid
	}
	return b
}

func runCacheFile(p *FilePlan, ch *simrt.Choices) *fileRun {
	res := &fileRun{Kinds: map[string]int{}}
	sim := simrt.New(ch)
	defer sim.Close()
	c := &NodeCfg{ExtElements: p.ExtElements, CapUDP: 1, CapMQ: 1, CapMirror: 1}
	resetGlobals(c)
	installFiles(sim, c)
	if p.ExtElements {
		ipfix.LoadExtElements(confDir)
	}
	simrt.SetFuel(20000000)
	defer simrt.SetFuel(0)
	encodeItems(p.Announce, p.Exporters)
	// probes are encoded against the final template set
	all := append(append([]Delivery(nil), p.Announce...), p.Probes...)
	encodeItems(all, p.Exporters)
	probes := all[len(p.Announce):]
	all2 := append(append(append([]Delivery(nil), p.Announce...), p.Gen2Announce...), p.Gen2Probes...)
	encodeItems(all2, p.Exporters)
	gen2ann := all2[len(p.Announce) : len(p.Announce)+len(p.Gen2Announce)]
	gen2probes := all2[len(p.Announce)+len(p.Gen2Announce):]
	find := func(class, key, msg string) {
		if len(res.Findings) < 6 {
			res.Findings = append(res.Findings, fileFinding{class, key, msg})
		}
	}
	done := false
	sim.GoNamed("cachefile", true, func() {
		defer func() { done = true }()
		orig := &fileAPI{proto: p.Proto}
		orig.load("/none")
		for i := range p.Announce {
			d := &p.Announce[i]
			orig.decode(srcAddr(&p.Exporters[d.Exporter]).IP, append([]byte(nil), d.payload...))
		}
		if p.Bulk > 0 {
			exps := append([]ExporterPlan(nil), p.Exporters...)
			for i := 0; i < p.Bulk; i++ {
				ip := net.IP{10, 200, byte(i >> 8), byte(i)}
				orig.decode(ip, bulkTemplateMsg(p.Proto, 300, p.BulkFields))
				if i == 0 || i == p.Bulk-1 {
					exps = append(exps, ExporterPlan{Addr: []byte(ip), Port: 6000 + i, Proto: p.Proto})
					probes = append(probes, Delivery{Proto: p.Proto, Exporter: len(exps) - 1, payload: bulkDataMsg(p.Proto, 300, p.BulkFields)})
				}
			}
			p.Exporters = exps
			res.Kinds["large-deployment"]++
		}
		// reference decodes with the original cache
		ref := make([][]byte, len(probes))
		for i := range probes {
			d := &probes[i]
			_, js, _ := orig.decode(srcAddr(&p.Exporters[d.Exporter]).IP, append([]byte(nil), d.payload...))
			ref[i] = js
		}
		path := "/tmp/cache.file"
		if p.AgeSec > 0 {
			simrt.Sleep(time.Duration(p.AgeSec) * time.Second)
			// the exporters kept sending data all the time: the reference is what
			// the running collector decodes at the moment it is stopped
			for i := range probes {
				d := &probes[i]
				_, js, _ := orig.decode(srcAddr(&p.Exporters[d.Exporter]).IP, append([]byte(nil), d.payload...))
				ref[i] = js
			}
		}
		if err := orig.dump(path); err != nil {
			find("dump-error", "dump", err.Error())
			return
		}
		valid, _ := sim.FS.Get(path)
		res.File = valid
		if p.DownSec > 0 {
			simrt.Sleep(time.Duration(p.DownSec) * time.Second)
		}
		// one variant: install content (or fault), load, check
		variant := func(kind string, content []byte, present bool, readErr error, exact bool) {
			res.Variants++
			res.Kinds[kind]++
			simrt.Yield(-60)
			vp := "/tmp/variant.file"
			sim.FS.Remove(vp)
			delete(sim.FS.ReadErr, vp)
			if present {
				sim.FS.Put(vp, content)
			}
			if readErr != nil {
				if sim.FS.ReadErr == nil {
					sim.FS.ReadErr = map[string]error{}
				}
				sim.FS.ReadErr[vp] = readErr
			}
			a := &fileAPI{proto: p.Proto}
			desc := fmt.Sprintf("%s (%d of %d octets)", kind, len(content), len(valid))
			stage := "load"
			simrt.Refill()
			func() {
				defer func() {
					if r := recover(); r != nil {
						if _, ok := r.(simrt.FuelPanic); ok {
							find("no-progress-after-load", stage, fmt.Sprintf("%s: %s did not terminate", desc, stage))
							return
						}
						buf := make([]byte, 6000)
						n := runtime.Stack(buf, false)
						find("panic-"+stage, panicKey(string(buf[:n]), fmt.Sprint(r)), fmt.Sprintf("%s: panic during %s: %v\n%s\nfile content: %s", desc, stage, r, trimStack(string(buf[:n])), tail(string(content), 300)))
					}
				}()
				a.load(vp)
				stage = "probe"
				known := 0
				for i := range probes {
					d := &probes[i]
					n, js, es := a.decode(srcAddr(&p.Exporters[d.Exporter]).IP, append([]byte(nil), d.payload...))
					switch {
					case n == 0 && js == nil:
						// unknown: acceptable for anything but the intact file
						if exact && ref[i] != nil {
							find("roundtrip-mismatch", p.Proto, fmt.Sprintf("%s: probe %d decodes to nothing after reload (%s), before: %s", desc, i, es, tail(string(ref[i]), 200)))
						}
					case bytes.Equal(js, ref[i]):
						known++
					default:
						if kind == "struct" || kind == "flip" || kind == "delete" || kind == "insert" {
							// a hand-edited template is by construction not "in the saved cache"
							continue
						}
						find("wrong-template-after-load", p.Proto, fmt.Sprintf("%s: probe %d decodes differently after reload:\n got %s\nwant %s", desc, i, tail(string(js), 200), tail(string(ref[i]), 200)))
					}
				}
				if known > 0 {
					res.Loaded++
				}
				// usability: a new announcement and a lookup work
				stage = "use"
				k := CacheKeyPlan{Addr: []byte{198, 51, 100, 7}, ID: 999}
				api := &cacheAPI{proto: p.Proto, ic: a.ic, nc: a.nc}
				api.announce(k, 3, 1)
				if v, det := api.lookup(k, 2); v != 3 {
					find("unusable-after-load", p.Proto, fmt.Sprintf("%s: a template announced after loading is not applied (got version %d: %s)", desc, v, det))
				}
				// and the cache can be dumped and loaded again
				stage = "redump"
				if err := a.dump("/tmp/redump.file"); err != nil {
					find("unusable-after-load", p.Proto+" redump", fmt.Sprintf("%s: dump after load failed: %v", desc, err))
				}
			}()
		}
		variant("intact", valid, true, nil, true)
		// second generation: load the saved file, announce again, save over the
		// same file, load: what the reloaded cache decodes must be what the
		// cache decoded when it was saved
		if len(gen2ann) > 0 {
			res.Kinds["second-generation"]++
			func() {
				defer func() {
					if r := recover(); r != nil {
						find("panic-second-generation", fmt.Sprint(r), fmt.Sprintf("panic in the second generation: %v", r))
					}
				}()
				if p.Gen2Skew != 0 {
					skewed := reTimestamp.ReplaceAllFunc(valid, func(m []byte) []byte {
						n, _ := strconv.ParseInt(string(m[len(`"Timestamp":`):]), 10, 64)
						return []byte(`"Timestamp":` + strconv.FormatInt(n+p.Gen2Skew, 10))
					})
					sim.FS.Put(path, skewed)
					res.Kinds["file-timestamps-skewed"]++
				}
				l := &fileAPI{proto: p.Proto}
				l.load(path)
				// a fresh cache that hears the same re-announcements: the loaded
				// cache must decode the data that follows in the same way
				fresh := &fileAPI{proto: p.Proto}
				fresh.load("/none")
				for i := range gen2ann {
					d := &gen2ann[i]
					l.decode(srcAddr(&p.Exporters[d.Exporter]).IP, append([]byte(nil), d.payload...))
					fresh.decode(srcAddr(&p.Exporters[d.Exporter]).IP, append([]byte(nil), d.payload...))
				}
				ref2 := make([][]byte, len(gen2probes))
				for i := range gen2probes {
					d := &gen2probes[i]
					_, ref2[i], _ = l.decode(srcAddr(&p.Exporters[d.Exporter]).IP, append([]byte(nil), d.payload...))
					_, want, _ := fresh.decode(srcAddr(&p.Exporters[d.Exporter]).IP, append([]byte(nil), d.payload...))
					if !bytes.Equal(ref2[i], want) {
						find("reannouncement-after-load-not-applied", p.Proto, fmt.Sprintf("a cache loaded from its file (timestamps shifted by %d s) hears a template announced again and decodes data for it differently from a cache that only heard that announcement (probe %d):\n got %s\nwant %s", p.Gen2Skew, i, tail(string(ref2[i]), 240), tail(string(want), 240)))
					}
				}
				if err := l.dump(path); err != nil {
					find("dump-error", "second generation", err.Error())
					return
				}
				m := &fileAPI{proto: p.Proto}
				m.load(path)
				for i := range gen2probes {
					d := &gen2probes[i]
					_, js, es := m.decode(srcAddr(&p.Exporters[d.Exporter]).IP, append([]byte(nil), d.payload...))
					if !bytes.Equal(js, ref2[i]) {
						find("second-generation-mismatch", p.Proto, fmt.Sprintf("a cache loaded from its file, updated by a re-announcement and saved over the same file decodes probe %d differently after the next load (%s):\n got %s\nwant %s", i, es, tail(string(js), 240), tail(string(ref2[i]), 240)))
					}
				}
				// restore the first-generation file for the variants below
				sim.FS.Put(path, valid)
			}()
		}
		// saving over an existing, longer cache file (the previous run knew
		// more templates) must leave exactly the new cache
		if p.Bulk == 0 {
			big := &fileAPI{proto: p.Proto}
			big.load("/none")
			for i := range p.Announce {
				d := &p.Announce[i]
				big.decode(srcAddr(&p.Exporters[d.Exporter]).IP, append([]byte(nil), d.payload...))
			}
			fat := &cacheAPI{proto: p.Proto, ic: big.ic, nc: big.nc}
			for i := 0; i < 6; i++ {
				fat.announce(CacheKeyPlan{Addr: []byte{203, 0, 113, byte(i + 1)}, ID: uint16(700 + i)}, 1+i, uint32(i))
			}
			rp := "/tmp/resave.file"
			if err := big.dump(rp); err == nil {
				prev, _ := sim.FS.Get(rp)
				if err := orig.dump(rp); err != nil {
					find("dump-error", "resave", err.Error())
				} else {
					now, _ := sim.FS.Get(rp)
					if len(prev) > len(valid) {
						res.Kinds["resave-over-longer-file"]++
					}
					variant("resave", now, true, nil, true)
				}
			}
		}
		// the disk fills up while the cache is saved: the save may fail (and say
		// so); if it reports success, the file must load back completely
		for _, k := range []int{0, 1, len(valid) / 3, len(valid) - 1} {
			if k < 0 || p.Bulk > 0 {
				continue
			}
			fp := "/tmp/full.file"
			sim.FS.Remove(fp)
			if sim.FS.NoSpaceAt == nil {
				sim.FS.NoSpaceAt = map[string]int{}
			}
			sim.FS.NoSpaceAt[fp] = k
			err := orig.dump(fp)
			delete(sim.FS.NoSpaceAt, fp)
			res.Kinds["disk-full-while-saving"]++
			if err == nil {
				got, _ := sim.FS.Get(fp)
				variant("save-reported-success-on-a-full-disk", got, true, nil, true)
			}
		}
		// crash prefixes
		var ks []int
		if p.AllPrefixes {
			for k := 0; k <= len(valid); k++ {
				ks = append(ks, k)
			}
		} else {
			for _, k := range p.Prefixes {
				if k < 0 {
					k = len(valid) + k
				}
				if k >= 0 && k <= len(valid) {
					ks = append(ks, k)
				}
			}
		}
		if p.Bulk > 0 {
			ks = []int{len(valid) / 2, len(valid) - 1}
		}
		for _, k := range ks {
			variant("prefix", valid[:k], true, nil, false)
			if len(res.Findings) > 4 {
				return
			}
		}
		r := rand.New(rand.NewSource(p.Seed))
		for _, cr := range p.Corrupt {
			if p.Bulk > 0 {
				break
			}
			b := append([]byte(nil), valid...)
			off := 0
			if len(b) > 0 {
				off = ((cr.Off % len(b)) + len(b)) % len(b)
			}
			switch cr.Kind {
			case "flip":
				if len(b) > 0 {
					b[off] ^= byte(1 << uint(cr.Len&7))
				}
				variant("flip", b, true, nil, false)
			case "delete":
				n := 1 + cr.Len%8
				if off+n > len(b) {
					n = len(b) - off
				}
				variant("delete", append(b[:off:off], b[off+n:]...), true, nil, false)
			case "insert":
				nb := append(append(append([]byte(nil), b[:off]...), cr.Val...), b[off:]...)
				variant("insert", nb, true, nil, false)
			case "tail-zero":
				n := 1 + cr.Len%512
				variant("tail-zero", append(b[:off:off], make([]byte, n)...), true, nil, false)
			case "tail-garbage":
				variant("tail-garbage", append(b[:off:off], cr.Val...), true, nil, false)
			case "struct":
				variant("struct", applyStructEdit(valid, cr.Edit, r), true, nil, false)
			case "absent":
				variant("absent", nil, false, nil, false)
			case "empty":
				variant("empty", []byte{}, true, nil, false)
			case "unreadable":
				variant("unreadable", valid, true, syscall.EACCES, false)
			}
			if len(res.Findings) > 4 {
				return
			}
		}
	})
	sim.OnIdle = func() bool { return done }
	sim.IdleLimit = 2000 * 24 * time.Hour // silences of hours and days are part of the histories
	sim.MaxSteps = 200000000              // every prefix of a file of tens of kilobytes is loaded and probed
	sim.Run()
	res.Steps = sim.Seq
	res.Unfinished = !done
	sim.Teardown()
	return res
}

func genFilePlan(seed int64, tier string) *FilePlan {
	r := rand.New(rand.NewSource(seed))
	p := &FilePlan{Proto: []string{pIPFIX, pNF9}[r.Intn(2)], ExtElements: r.Intn(2) == 0, Seed: seed}
	mp := "ipfix"
	if p.Proto == pNF9 {
		mp = "nf9"
	}
	c := &NodeCfg{ExtElements: p.ExtElements}
	im := modelIM(c)
	nEx := 1 + r.Intn(4)
	seq := uint32(1)
	for e := 0; e < nEx; e++ {
		ex := ExporterPlan{Addr: genAddr(r, false), Port: 5000 + e, Proto: p.Proto, SpareCap: r.Intn(2) == 0, Domain: uint32(e + 1)}
		p.Exporters = append(p.Exporters, ex)
		g := model.NewGen(r, im, model.GenOpts{Proto: mp, Enterprise: p.ExtElements, VarLen: true, Reduced: true, MaxSize: 1400, HardStrings: true})
		nt := 1 + r.Intn(4)
		var tpls []model.Template
		for t := 0; t < nt; t++ {
			tpls = append(tpls, g.Template(uint16(256+r.Intn(4)+10*t)))
		}
		m := &model.Msg{Proto: mp, Time: 1, Seq: seq, Domain: ex.Domain, Sets: g.TemplateSets(tpls)}
		seq++
		p.Announce = append(p.Announce, Delivery{Proto: p.Proto, Exporter: e, Abs: m})
		if r.Intn(3) == 0 {
			// a re-announcement with another definition: the later one is what is saved
			t2 := g.Template(tpls[0].ID)
			tpls[0] = t2
			m2 := &model.Msg{Proto: mp, Time: 1, Seq: seq, Domain: ex.Domain, Sets: g.TemplateSets([]model.Template{t2})}
			seq++
			p.Announce = append(p.Announce, Delivery{Proto: p.Proto, Exporter: e, Abs: m2})
		}
		for ti := range tpls {
			ds, _ := g.DataSet(&tpls[ti], 1+r.Intn(3), 600)
			pm := &model.Msg{Proto: mp, Time: 2, Seq: seq, Domain: ex.Domain, Sets: []model.Set{ds}}
			seq++
			p.Probes = append(p.Probes, Delivery{Proto: p.Proto, Exporter: e, Abs: pm})
		}
		if r.Intn(2) == 0 {
			// second generation for this exporter: one template announced again
			ti := r.Intn(len(tpls))
			for k := range tpls {
				if tpls[k].Options && r.Intn(2) == 0 {
					ti = k // options templates have two specifier lists
				}
			}
			nt := tpls[ti]
			nt.Fields = append([]model.FieldSpec(nil), nt.Fields...)
			nt.Scope = append([]model.FieldSpec(nil), nt.Scope...)
			dt := g.Template(nt.ID)
			donor := dt.AllFields()[0]
			switch k := r.Intn(4); {
			case k == 0:
				// unchanged: the periodic refresh
			case k == 1 && len(nt.Scope) > 0:
				nt.Scope[r.Intn(len(nt.Scope))] = donor // only the scope changes
			case k == 2 && len(nt.Fields) > 0:
				nt.Fields[r.Intn(len(nt.Fields))] = donor // only one field changes
			default:
				if len(nt.Fields) > 0 {
					nt.Fields[len(nt.Fields)-1] = donor
				} else if len(nt.Scope) > 0 {
					nt.Scope[len(nt.Scope)-1] = donor
				}
			}
			if g.MinRecLen(&nt) > 0 {
				m2 := &model.Msg{Proto: mp, Time: 3, Seq: seq, Domain: ex.Domain, Sets: g.TemplateSets([]model.Template{nt})}
				seq++
				p.Gen2Announce = append(p.Gen2Announce, Delivery{Proto: p.Proto, Exporter: e, Abs: m2})
				ds, _ := g.DataSet(&nt, 1+r.Intn(3), 600)
				pm := &model.Msg{Proto: mp, Time: 4, Seq: seq, Domain: ex.Domain, Sets: []model.Set{ds}}
				seq++
				p.Gen2Probes = append(p.Gen2Probes, Delivery{Proto: p.Proto, Exporter: e, Abs: pm})
			}
		}
	}
	if len(p.Gen2Announce) > 0 && r.Intn(3) == 0 {
		p.Gen2Skew = []int64{3600, -3600, 86400 * 400, 5, -86400}[r.Intn(5)]
	}
	if r.Intn(3) == 0 {
		p.AgeSec = []int64{1, 3600, 7300, 90000, 40 * 86400, 400 * 86400}[r.Intn(6)]
	}
	if r.Intn(4) == 0 {
		p.DownSec = []int64{1, 3600, 7300, 90000, 40 * 86400}[r.Intn(5)]
	}
	if r.Intn(50) == 0 {
		// a large deployment: the file grows to tens of megabytes
		p.BulkFields = 4000 + r.Intn(12000)
		p.Bulk = (8 + r.Intn(110)) * 16000 / p.BulkFields
		if p.Proto == pNF9 {
			p.Bulk = p.Bulk * 3 / 2
		}
	}
	if tier == "thorough" && p.Bulk == 0 {
		p.AllPrefixes = true
	} else {
		p.Prefixes = []int{0, 1, 2, 3, 8, 9, 10, 11, -1, -2, -3, -12, -13, -14}
		for i := 0; i < 60; i++ {
			p.Prefixes = append(p.Prefixes, r.Intn(20000))
		}
	}
	p.Corrupt = append(p.Corrupt, FileCorrupt{Kind: "absent"}, FileCorrupt{Kind: "empty"}, FileCorrupt{Kind: "unreadable"})
	for _, e := range structEdits {
		p.Corrupt = append(p.Corrupt, FileCorrupt{Kind: "struct", Edit: e})
	}
	n := 40
	if tier == "thorough" {
		n = 400
	}
	for i := 0; i < n; i++ {
		k := []string{"flip", "delete", "insert", "tail-zero", "tail-garbage"}[r.Intn(5)]
		val := make([]byte, 1+r.Intn(16))
		r.Read(val)
		if r.Intn(2) == 0 {
			val = []byte([]string{"null", "{}", "[]", "\"x\"", "-1", "1e99", ",", ":", "}", "]"}[r.Intn(10)])
		}
		p.Corrupt = append(p.Corrupt, FileCorrupt{Kind: k, Off: r.Intn(1 << 20), Len: r.Intn(4096), Val: val})
	}
	return p
}

// bulkTemplateMsg is one message announcing template id with n four-octet
// fields (element ids 1..24 in turn).
func bulkTemplateMsg(proto string, id uint16, n int) []byte {
	rec := binary.BigEndian.AppendUint16(nil, id)
	rec = binary.BigEndian.AppendUint16(rec, uint16(n))
	for i := 0; i < n; i++ {
		rec = binary.BigEndian.AppendUint16(rec, uint16(1+i%24))
		rec = binary.BigEndian.AppendUint16(rec, 4)
	}
	if proto == pIPFIX {
		return ipfixMsg(1, ipfixSet(2, rec))
	}
	return nf9Msg(1, ipfixSet(0, rec))
}

// bulkDataMsg is one record for that template.
func bulkDataMsg(proto string, id uint16, n int) []byte {
	rec := make([]byte, 4*n)
	for i := range rec {
		rec[i] = byte(i * 7)
	}
	if proto == pIPFIX {
		return ipfixMsg(2, ipfixSet(id, rec))
	}
	return nf9Msg(2, ipfixSet(id, rec))
}

func nf9Msg(seq uint32, sets ...[]byte) []byte {
	b := make([]byte, 20)
	binary.BigEndian.PutUint16(b[0:], 9)
	binary.BigEndian.PutUint16(b[2:], 1)
	binary.BigEndian.PutUint32(b[4:], 1000)
	binary.BigEndian.PutUint32(b[8:], 1)
	binary.BigEndian.PutUint32(b[12:], seq)
	binary.BigEndian.PutUint32(b[16:], 1)
	for _, s := range sets {
		b = append(b, s...)
	}
	return b
}

func genFileFor(prop, tier string, seed int64) []byte {
	p := genFilePlan(seed, tier)
	if prop != "C11" {
		// the other properties are interested in the generations, not in the
		// crash points and corruptions of the file
		p.Bulk, p.BulkFields, p.AllPrefixes = 0, 0, false
		if len(p.Prefixes) > 4 {
			p.Prefixes = p.Prefixes[:4]
		}
		if len(p.Corrupt) > 3 {
			p.Corrupt = p.Corrupt[:3]
		}
	}
	b, _ := json.Marshal(p)
	return b
}

func execCacheFile(t *testing.T, prop string, planJSON []byte, ch *simrt.Choices, trace bool) *RunOut {
	out := &RunOut{Scenario: "cachefile", PlanJSON: planJSON, Faults: map[string]int{}, Probes: map[string]int{}, PlanHash: planHash(planJSON)}
	var p FilePlan
	if err := json.Unmarshal(planJSON, &p); err != nil {
		out.Inconclusive = "bad-plan"
		return out
	}
	var res *fileRun
	if pv := bubble(t, func() { res = runCacheFile(&p, ch) }); pv != nil {
		out.Violations = append(out.Violations, Violation{Prop: prop, Class: "harness-panic", Key: "harness", Msg: fmt.Sprint(pv)})
		return out
	}
	out.Steps = res.Steps
	if res.Unfinished && len(res.Findings) == 0 {
		out.Inconclusive = "scenario-did-not-finish"
	}
	out.Choices = ch.Rec
	out.NonTrivial = res.Variants > 1
	out.TraceHash = hash64(res.File)
	for k, v := range res.Kinds {
		out.Faults["disk-"+k] += v
	}
	if p.AgeSec >= 3600 {
		out.Faults["clock-hours-or-days-between-announcement-and-save"]++
	}
	if p.DownSec >= 3600 {
		out.Faults["clock-hours-or-days-between-save-and-load"]++
	}
	out.Probes["variants"] = res.Variants
	out.Probes["variants-with-saved-templates-still-known"] = res.Loaded
	out.Probes["file-octets"] = len(res.File)
	for _, f := range res.Findings {
		out.Violations = append(out.Violations, Violation{Prop: prop, Class: f.Class, Key: f.Key, Msg: f.Msg})
	}
	out.Sample = map[string]interface{}{"scenario": "cachefile", "proto": p.Proto, "exporters": len(p.Exporters), "saved_keys": len(p.Probes), "file_octets": len(res.File),
		"variants": res.Variants, "kinds": res.Kinds, "all_prefixes": p.AllPrefixes, "file_head": tail(string(trunc(res.File, 160)), 160)}
	return out
}

func shrinkFile(planJSON []byte) [][]byte {
	var p FilePlan
	if json.Unmarshal(planJSON, &p) != nil {
		return nil
	}
	var out [][]byte
	emit := func(q FilePlan) {
		b, _ := json.Marshal(&q)
		out = append(out, b)
	}
	if p.Bulk > 0 {
		// executions of a large deployment are expensive: a handful of candidates
		q := p
		q.Bulk, q.BulkFields = 0, 0
		emit(q)
		if len(p.Corrupt) > 0 || len(p.Prefixes) > 0 || len(p.Gen2Announce) > 0 {
			q = p
			q.Corrupt, q.Prefixes, q.AllPrefixes, q.Gen2Announce, q.Gen2Probes = nil, nil, false, nil, nil
			emit(q)
		}
		if p.Bulk > 1 {
			q = p
			q.Bulk = p.Bulk / 2
			emit(q)
			q = p
			q.Bulk = p.Bulk * 9 / 10
			if q.Bulk < p.Bulk && q.Bulk > p.Bulk/2 {
				emit(q)
			}
		}
		return out
	}
	// fewer corruptions / prefixes
	for chunk := len(p.Corrupt) / 2; chunk >= 1; chunk /= 2 {
		for s := 0; s < len(p.Corrupt); s += chunk {
			e := s + chunk
			if e > len(p.Corrupt) {
				e = len(p.Corrupt)
			}
			q := p
			q.Corrupt = append(append([]FileCorrupt(nil), p.Corrupt[:s]...), p.Corrupt[e:]...)
			emit(q)
		}
		if chunk == 1 {
			break
		}
	}
	if p.AllPrefixes {
		q := p
		q.AllPrefixes = false
		emit(q)
	}
	for chunk := len(p.Prefixes) / 2; chunk >= 1; chunk /= 2 {
		for s := 0; s < len(p.Prefixes); s += chunk {
			e := s + chunk
			if e > len(p.Prefixes) {
				e = len(p.Prefixes)
			}
			q := p
			q.Prefixes = append(append([]int(nil), p.Prefixes[:s]...), p.Prefixes[e:]...)
			emit(q)
		}
		if chunk == 1 {
			break
		}
	}
	// fewer probes / announcements
	for i := range p.Probes {
		if len(p.Probes) > 1 {
			q := p
			q.Probes = append(append([]Delivery(nil), p.Probes[:i]...), p.Probes[i+1:]...)
			emit(q)
		}
	}
	return out
}

var scFile = defScenario(&Scenario{Name: "cachefile", Gen: genFileFor, Exec: execCacheFile, Shrink: shrinkFile})

func init() {
	register("C11", scFile, 10)
	// the second generation (re-announcements heard by a cache loaded from its
	// file) is a "latest template" history as well
	register("C04", scFile, 1)
	register("C10", scFile, 1)
}
