//go:build verif

package main

import (
	"bytes"
	"encoding/binary"
	"encoding/json"
	"fmt"
	"math/rand"
	"net"
	"testing"

	"github.com/EdgeCast/vflow/ipfix"
	"github.com/EdgeCast/vflow/verifsim/model"
	"github.com/EdgeCast/vflow/verifsim/simrt"
)

// Crowd scenario (C05, C12, C01, C02): a large deployment at library level.
// N exporters (up to several thousand, IPv4 in both address forms and IPv6)
// send the same short history - template message(s), then data message(s) -
// through the real decoders and encoders of one process, one call at a time;
// afterwards some of the early exporters send their data again. What is
// published for a datagram depends on that datagram, on its sender's address
// and on its sender's templates only: every exporter's output must be the
// first exporter's output with the sender's address in place of the first
// one's, however many exporters the process has seen in between. (The first
// exporter's output itself is compared with the wire model by the pipeline
// scenario.) For C01/C02 datagrams made of very many sets for unknown
// templates follow, metered like the hostile histories of the lib scenario:
// work and memory per datagram must not grow with what the process has cached.

// CrowdPlan is one run.
type CrowdPlan struct {
	Proto       string     `json:"proto"`
	ExtElements bool       `json:"ext_elements"`
	N           int        `json:"n"`
	Items       []Delivery `json:"items"` // exporter 0's history, in order
	Revisit     int        `json:"revisit"`
	AddrBase    int        `json:"addr_base"`
	Filter      []uint32   `json:"filter,omitempty"`
	// hostile datagrams sent after the crowd (C01/C02): Size octets of
	// header-only sets for unknown template ids
	ManySets []int `json:"many_sets,omitempty"`
	// Flood (IPFIX, NetFlow v9): after the first exporter, Flood further
	// exporters each announce a one-field template under every id from 256 to
	// 65535 (hundreds of thousands of cache entries) before the crowd follows
	Flood int `json:"flood,omitempty"`
	Seed     int64 `json:"seed"`
}

func crowdAddr(base, i int) net.IP {
	switch i % 3 {
	case 0:
		return net.IP{byte(10 + base%80), byte(i >> 16), byte(i >> 8), byte(i)}
	case 1:
		ip := net.IPv4(byte(100+base%60), byte(i>>16), byte(i>>8), byte(i)) // 16-octet form
		return ip
	default:
		ip := make(net.IP, 16)
		copy(ip, []byte{0x20, 0x01, 0x0d, 0xb8, byte(base), 0, 0, 0})
		binary.BigEndian.PutUint32(ip[12:], uint32(i))
		return ip
	}
}

func genCrowdFor(prop, tier string, seed int64) []byte {
	r := rand.New(rand.NewSource(seed))
	p := &CrowdPlan{Proto: allProtos[r.Intn(4)], ExtElements: r.Intn(2) == 0, AddrBase: r.Intn(250), Seed: seed}
	if prop == "C01" || prop == "C02" {
		p.Proto = []string{pIPFIX, pNF9}[r.Intn(2)]
	}
	if prop == "C03" {
		p.Proto = pIPFIX
	}
	if prop == "C06" {
		p.Proto = pNF9
	}
	switch k := r.Intn(20); {
	case k < 12:
		p.N = 20 + r.Intn(280)
	case k < 17:
		p.N = 1000 + r.Intn(1000)
	default:
		p.N = 4100 + r.Intn(2900)
	}
	p.Revisit = 1 + r.Intn(60)
	if r.Intn(80) == 0 {
		p.Flood = []int{1, 3, 6, 10}[r.Intn(4)]
		if p.N > 300 {
			p.N = 20 + r.Intn(280)
		}
	}
	c := &NodeCfg{ExtElements: p.ExtElements}
	im := modelIM(c)
	switch p.Proto {
	case pIPFIX, pNF9:
		mp := "ipfix"
		if p.Proto == pNF9 {
			mp = "nf9"
		}
		g := model.NewGen(r, im, model.GenOpts{Proto: mp, Enterprise: p.ExtElements, VarLen: true, Reduced: true, MaxSize: 1400, HardStrings: true})
		nt := 1 + r.Intn(3)
		var tpls []model.Template
		for t := 0; t < nt; t++ {
			tpls = append(tpls, g.Template(uint16(256+r.Intn(4)+10*t)))
		}
		p.Items = append(p.Items, Delivery{Proto: p.Proto, Abs: &model.Msg{Proto: mp, Time: 1, Seq: 1, Domain: 1, Sets: g.TemplateSets(tpls)}})
		for ti := range tpls {
			ds, _ := g.DataSet(&tpls[ti], 1+r.Intn(3), 600)
			p.Items = append(p.Items, Delivery{Proto: p.Proto, Abs: &model.Msg{Proto: mp, Time: 2, Seq: uint32(2 + ti), Domain: 1, Sets: []model.Set{ds}}})
		}
		if prop == "C01" || prop == "C02" {
			for i, n := 0, 1+r.Intn(3); i < n; i++ {
				p.ManySets = append(p.ManySets, []int{64, 400, 1472, 1472, 9000, 65000}[r.Intn(6)])
			}
		}
	case pNF5:
		for i, n := 0, 1+r.Intn(2); i < n; i++ {
			p.Items = append(p.Items, Delivery{Proto: p.Proto, V5: model.GenV5(r, uint32(1+i), 0, true)})
		}
	case pSFlow:
		if r.Intn(3) == 0 {
			p.Filter = [][]uint32{{1}, {2}, {3, 4}}[r.Intn(3)]
		}
		for i, n := 0, 1+r.Intn(2); i < n; i++ {
			p.Items = append(p.Items, Delivery{Proto: p.Proto, SF: model.GenSFDatagram(r, uint32(1+i), 0, 1400)})
		}
	}
	for i := range p.Items {
		p.Items[i].ID = i
	}
	b, _ := json.Marshal(p)
	return b
}

// floodTemplates is one message announcing a one-field template under every
// id in [first, last).
func floodTemplates(proto string, first, last int) []byte {
	var recs []byte
	for id := first; id < last; id++ {
		recs = append(recs, byte(id>>8), byte(id), 0, 1, 0, 2, 0, 2) // id, one field: element 2 (packetDeltaCount), 2 octets
	}
	if proto == pNF9 {
		b := nf9Msg(7, ipfixSet(0, recs))
		binary.BigEndian.PutUint16(b[2:], uint16(last-first))
		return b
	}
	return ipfixMsg(7, ipfixSet(2, recs))
}

// manySetsDatagram is a message of the protocol made of header-only sets for
// template ids nobody announced.
func manySetsDatagram(proto string, size int) []byte {
	var sets [][]byte
	hdr := 16
	if proto == pNF9 {
		hdr = 20
	}
	for id := 0; hdr+4*(len(sets)+1) <= size; id++ {
		sets = append(sets, ipfixSet(uint16(20000+id%40000), nil))
	}
	if proto == pNF9 {
		b := nf9Msg(9, sets...)
		binary.BigEndian.PutUint16(b[2:], uint16(len(sets)))
		return b
	}
	return ipfixMsg(9, sets...)
}

func execCrowd(t *testing.T, prop string, planJSON []byte, ch *simrt.Choices, trace bool) *RunOut {
	out := &RunOut{Scenario: "crowd", PlanJSON: planJSON, Faults: map[string]int{}, Probes: map[string]int{}, PlanHash: planHash(planJSON)}
	var p CrowdPlan
	if err := json.Unmarshal(planJSON, &p); err != nil || p.N < 1 || len(p.Items) == 0 {
		out.Inconclusive = "bad-plan"
		return out
	}
	ip0 := crowdAddr(p.AddrBase, 0)
	encodeItems(p.Items, []ExporterPlan{{Addr: []byte(ip0), Port: 4000, Proto: p.Proto, Domain: 1}})
	type finding struct{ class, key, msg string }
	var findings []finding
	calls := 0
	var steps uint64
	unfinished := false
	pv := bubble(t, func() {
		sim := simrt.New(ch)
		defer sim.Close()
		c := &NodeCfg{ExtElements: p.ExtElements, CapUDP: 1, CapMQ: 1, CapMirror: 1}
		resetGlobals(c)
		installFiles(sim, c)
		if p.ExtElements {
			ipfix.LoadExtElements(confDir)
		}
		simrt.SetFuel(20000000)
		defer simrt.SetFuel(0)
		done := false
		sim.GoNamed("crowd", true, func() {
			defer func() { done = true }()
			dc := newDecoders(p.Filter)
			ref := make([][]byte, len(p.Items))
			refDec := make([]bool, len(p.Items))
			pat0 := []byte(`"AgentID":"` + ip0.String() + `"`)
			one := func(i int, ip net.IP, k int, again bool) bool {
				simrt.Refill()
				calls++
				var js []byte
				var dec bool
				var es string
				func() {
					defer func() {
						if r := recover(); r != nil {
							if _, ok := r.(simrt.FuelPanic); ok {
								es = "no progress"
							} else {
								es = fmt.Sprintf("panic: %v", r)
							}
							if prop == "C01" {
								findings = append(findings, finding{"panic", "crowd", fmt.Sprintf("exporter %d of %d (%v), item %d: %s", i, p.N, ip, k, es)})
							}
						}
					}()
					_, j, d, e := dc.decodeOne(p.Proto, append(net.IP(nil), ip...), append([]byte(nil), p.Items[k].payload...))
					js, dec = j, d
					if e != nil {
						es = e.Error()
					}
				}()
				if i == 0 && !again {
					ref[k], refDec[k] = js, dec
					return true
				}
				want := ref[k]
				if want != nil {
					want = bytes.Replace(want, pat0, []byte(`"AgentID":"`+ip.String()+`"`), 1)
				}
				if prop != "C01" && prop != "C02" && (dec != refDec[k] || !bytes.Equal(js, want)) {
					what := fmt.Sprintf("exporter %d of %d", i, p.N)
					if again {
						what += " (sending its data again after the others)"
					}
					findings = append(findings, finding{"depends-on-other-exporters", p.Proto,
						fmt.Sprintf("%s, address %v, item %d: the same datagram that exporter 0 (%v) sent is published differently (apart from the sender's address); decoded=%v/%v err=%q\n got %s\nwant %s",
							what, ip, k, ip0, dec, refDec[k], es, tail(string(js), 400), tail(string(want), 400))})
					return false
				}
				return true
			}
			for i := 0; i < p.N; i++ {
				if i%64 == 0 {
					simrt.Yield(-95)
				}
				if i == 1 && p.Flood > 0 && (p.Proto == pIPFIX || p.Proto == pNF9) {
					for e := 0; e < p.Flood; e++ {
						fip := net.IP{198, 18, byte(p.AddrBase), byte(1 + e)}
						for first := 256; first < 65536; first += 7000 {
							simrt.Refill()
							last := first + 7000
							if last > 65536 {
								last = 65536
							}
							dc.decodeOne(p.Proto, fip, floodTemplates(p.Proto, first, last))
							calls++
						}
					}
					out.Faults["template-flood-exporters"] += p.Flood
				}
				ip := crowdAddr(p.AddrBase, i)
				for k := range p.Items {
					if !one(i, ip, k, false) || len(findings) > 0 {
						return
					}
				}
			}
			r := rand.New(rand.NewSource(p.Seed ^ 0x5eed))
			firstData := 0
			if p.Proto == pIPFIX || p.Proto == pNF9 {
				firstData = 1
			}
			for v := 0; v < p.Revisit; v++ {
				i := v
				if v%2 == 1 {
					i = r.Intn(p.N)
				}
				if i >= p.N {
					continue
				}
				for k := firstData; k < len(p.Items); k++ {
					if !one(i, crowdAddr(p.AddrBase, i), k, true) {
						return
					}
				}
			}
			out.Probes["exporters"] = p.N
			for hi, size := range p.ManySets {
				body := manySetsDatagram(p.Proto, size)
				i := r.Intn(p.N)
				c := dc.guarded(p.Proto, crowdAddr(p.AddrBase, i), body, hi)
				calls++
				out.Faults["datagram-of-unknown-sets"]++
				desc := fmt.Sprintf("a %s datagram of %d octets made of %d header-only sets for unknown template ids, after %d exporters announced %d template message(s) each", p.Proto, len(body), (len(body)-16)/4, p.N, firstData)
				switch {
				case prop == "C01" && c.Panic != "":
					findings = append(findings, finding{"panic", panicKey(c.Stack, c.Panic), desc + ": " + c.Panic + "\n" + trimStack(c.Stack)})
				case prop == "C02" && c.Fuel:
					findings = append(findings, finding{"no-progress", p.Proto + ": no progress", desc + ": processing did not terminate within the loop-iteration budget"})
				case prop == "C02" && c.Alloc > uint64(1<<20+2048*c.Len):
					findings = append(findings, finding{"alloc", p.Proto + " (large cache)", fmt.Sprintf("%s: %d octets allocated while processing (limit %d)", desc, c.Alloc, 1<<20+2048*c.Len)})
				}
			}
		})
		sim.OnIdle = func() bool { return done }
		sim.MaxSteps = 200000000 // a template flood is millions of lock operations
		sim.Run()
		unfinished = !done
		steps = sim.Seq
		sim.Teardown()
	})
	if pv != nil {
		out.Violations = append(out.Violations, Violation{Prop: prop, Class: "harness-panic", Key: "harness", Msg: fmt.Sprint(pv)})
		return out
	}
	out.Steps = steps
	out.Choices = ch.Rec
	out.NonTrivial = calls > 0
	out.TraceHash = splitmix(out.PlanHash + uint64(calls))
	out.Probes["crowd-calls"] = calls
	if p.N > 4096 {
		out.Probes["crowd-of-more-than-4096-exporters"]++
	}
	for _, f := range findings {
		out.Violations = append(out.Violations, Violation{Prop: prop, Class: f.class, Key: f.key, Msg: f.msg})
	}
	if unfinished && len(findings) == 0 {
		out.Inconclusive = "scenario-did-not-finish"
	}
	out.Sample = map[string]interface{}{"scenario": "crowd", "proto": p.Proto, "exporters": p.N, "items": len(p.Items), "revisits": p.Revisit, "calls": calls}
	return out
}

func shrinkCrowd(planJSON []byte) [][]byte {
	var p CrowdPlan
	if json.Unmarshal(planJSON, &p) != nil {
		return nil
	}
	var out [][]byte
	emit := func(q CrowdPlan) {
		b, _ := json.Marshal(&q)
		out = append(out, b)
	}
	for _, n := range []int{p.N / 2, p.N * 3 / 4, p.N - 1} {
		if n >= 1 && n < p.N {
			q := p
			q.N = n
			emit(q)
		}
	}
	for _, v := range []int{0, p.Revisit / 2, p.Revisit - 1} {
		if v >= 0 && v < p.Revisit {
			q := p
			q.Revisit = v
			emit(q)
		}
	}
	if p.Flood > 0 {
		q := p
		q.Flood = p.Flood - 1
		emit(q)
	}
	for i := range p.ManySets {
		q := p
		q.ManySets = append(append([]int(nil), p.ManySets[:i]...), p.ManySets[i+1:]...)
		emit(q)
	}
	if len(p.Items) > 1 {
		q := p
		q.Items = p.Items[:len(p.Items)-1]
		emit(q)
	}
	return out
}

var scCrowd = defScenario(&Scenario{Name: "crowd", Gen: genCrowdFor, Exec: execCrowd, Shrink: shrinkCrowd})

func init() {
	register("C05", scCrowd, 1)
	register("C12", scCrowd, 1)
	register("C01", scCrowd, 1)
	register("C02", scCrowd, 1)
	register("C03", scCrowd, 1)
	register("C06", scCrowd, 1)
}
