//go:build verif

package main

import (
	"bytes"
	"encoding/json"
	"fmt"
	"math/rand"
	"testing"

	"github.com/EdgeCast/vflow/ipfix"
	"github.com/EdgeCast/vflow/verifsim/model"
	"github.com/EdgeCast/vflow/verifsim/simrt"
)

// Information-model scenario (C20): the collector is booted once with the
// shipped scripts/ipfix.elements installed in its configuration directory and
// once without; after the real LoadExtElements has run (a) every entry of the
// information model must be keyed by its own id and carry the name and type
// the registry snapshot prescribes, and (b) a sweep of templates covering
// every element of the snapshot and of both tables, with values that separate
// the abstract types, must publish identical messages in both boots, equal to
// the wire model.

// abstract type name by vFlow's FieldType constant, in declaration order
// (RFC 5102 section 3.1 order as in ipfix/rfc5102_model.go)

func typeNameOf(t ipfix.FieldType) string {
	// resolve through the exported name table rather than through constants'
	// numeric values
	for name, v := range ipfix.FieldTypes {
		if v == t {
			return name
		}
	}
	if t == ipfix.Unknown {
		return "unknown"
	}
	return fmt.Sprintf("type(%d)", int(t))
}

// snapshotType maps the registry's type to what vFlow is expected to hold:
// the structured-data list types are not interpreted (raw octets).
func snapshotType(t string) string {
	if model.KnownType(t) {
		return t
	}
	return "unknown"
}

func checkInfoModelState(prop, boot string, out *RunOut) {
	snap := model.Snapshot()
	seen := 0
	var keys []ipfix.ElementKey
	for k := range ipfix.InfoModel {
		keys = append(keys, k)
	}
	// deterministic order
	for i := 1; i < len(keys); i++ {
		for j := i; j > 0 && (keys[j].EnterpriseNo < keys[j-1].EnterpriseNo || (keys[j].EnterpriseNo == keys[j-1].EnterpriseNo && keys[j].ElementID < keys[j-1].ElementID)); j-- {
			keys[j], keys[j-1] = keys[j-1], keys[j]
		}
	}
	for _, k := range keys {
		e := ipfix.InfoModel[k]
		seen++
		if e.FieldID != k.ElementID {
			out.Violations = append(out.Violations, Violation{Prop: prop, Class: "infomodel-key", Key: boot,
				Msg: fmt.Sprintf("%s: entry (%d,%d) carries element id %d (%s)", boot, k.EnterpriseNo, k.ElementID, e.FieldID, e.Name)})
			return
		}
		s, ok := snap[model.ElemKey{PEN: k.EnterpriseNo, ID: k.ElementID}]
		if !ok {
			out.Violations = append(out.Violations, Violation{Prop: prop, Class: "infomodel-extra", Key: boot,
				Msg: fmt.Sprintf("%s: element (%d,%d) %s is not in the registry snapshot", boot, k.EnterpriseNo, k.ElementID, e.Name)})
			return
		}
		if e.Name != s.Name {
			out.Violations = append(out.Violations, Violation{Prop: prop, Class: "infomodel-name", Key: boot,
				Msg: fmt.Sprintf("%s: element %d is named %q, the registry snapshot says %q", boot, k.ElementID, e.Name, s.Name)})
			return
		}
		if got, want := typeNameOf(e.Type), snapshotType(s.Type); got != want {
			out.Violations = append(out.Violations, Violation{Prop: prop, Class: "infomodel-type", Key: boot,
				Msg: fmt.Sprintf("%s: element %d (%s) has type %s, the registry snapshot says %s", boot, k.ElementID, e.Name, got, s.Type)})
			return
		}
	}
	for _, k := range snap.SortedKeys() {
		if _, ok := ipfix.InfoModel[ipfix.ElementKey{EnterpriseNo: k.PEN, ElementID: k.ID}]; !ok {
			out.Violations = append(out.Violations, Violation{Prop: prop, Class: "infomodel-missing", Key: boot,
				Msg: fmt.Sprintf("%s: element %d (%s) of the registry snapshot is missing", boot, k.ID, snap[k].Name)})
			return
		}
	}
	out.Probes["elements-checked-"+boot] += seen
}

// sweepPlan builds IPFIX traffic whose templates cover every element.
func sweepPlan(seed int64) *PipePlan {
	r := rand.New(rand.NewSource(seed))
	p := &PipePlan{Profile: "sweep"}
	p.Life.SignalPhase = -1
	o := PipeGenOpts{Protos: []string{pIPFIX}}
	p.Cfg = baseCfg(r, o.Protos, &o)
	p.Cfg.StallProb = 0
	p.NPhases = 2
	im := model.Snapshot()
	ex := ExporterPlan{Addr: genAddr(r, false), Port: 4000, Proto: pIPFIX, Domain: 1}
	p.Exporters = []ExporterPlan{ex}
	g := model.NewGen(r, im, model.GenOpts{Proto: "ipfix", MaxSize: 1400})
	keys := im.SortedKeys()
	id := uint16(256)
	next := 0
	add := func(d Delivery) {
		d.ID = len(p.Dels)
		p.Dels = append(p.Dels, d)
	}
	for next < len(keys) {
		var t model.Template
		t.ID = id
		id++
		size := 0
		for next < len(keys) && len(t.Fields) < 24 && size < 600 {
			e := im[keys[next]]
			next++
			f := model.FieldSpec{ID: e.ID, PEN: e.PEN}
			switch {
			case model.NaturalLen(e.Type) > 0:
				f.Len = uint16(model.NaturalLen(e.Type))
			default:
				// 8 octets separate string / octetArray / lists (raw) / any numeric type
				f.Len = 8
			}
			t.Fields = append(t.Fields, f)
			size += int(f.Len)
		}
		seq := uint32(1000 + len(p.Dels))
		add(Delivery{Phase: 0, AtUs: r.Intn(1000), Proto: pIPFIX, Exporter: 0, Abs: &model.Msg{Proto: "ipfix", Time: 1, Seq: seq, Domain: 1, Sets: g.TemplateSets([]model.Template{t})}})
		// values: high bit set, distinct octets, so that signedness, width,
		// float / integer / address / string renderings all differ
		var rec model.Record
		for _, f := range t.Fields {
			raw := make([]byte, f.Len)
			for i := range raw {
				raw[i] = byte(0x81 + i*7 + r.Intn(3))
			}
			if im[model.ElemKey{PEN: f.PEN, ID: f.ID}].Type == "string" {
				for i := range raw {
					raw[i] = byte('a' + (i+int(f.ID))%26)
				}
			}
			if im[model.ElemKey{PEN: f.PEN, ID: f.ID}].Type == "boolean" {
				raw[0] = byte(1 + r.Intn(2))
			}
			if im[model.ElemKey{PEN: f.PEN, ID: f.ID}].Type == "float64" {
				copy(raw, []byte{0xc0, 0x09, 0x21, 0xfb, 0x54, 0x44, 0x2d, byte(r.Intn(256))})
			}
			rec.Vals = append(rec.Vals, model.FieldVal{Raw: raw})
		}
		seq = uint32(1000 + len(p.Dels))
		add(Delivery{Phase: 1, AtUs: r.Intn(1000), Proto: pIPFIX, Exporter: 0, Abs: &model.Msg{Proto: "ipfix", Time: 2, Seq: seq, Domain: 1,
			Sets: []model.Set{{Kind: model.SetData, TplID: t.ID, Recs: []model.Record{rec, rec}}}}})
	}
	p.Cfg.CapMQ = len(p.Dels) + 8
	return p
}

func genInfoModelFor(prop, tier string, seed int64) []byte {
	return marshalPlan(sweepPlan(seed))
}

func execInfoModel(t *testing.T, prop string, planJSON []byte, ch *simrt.Choices, trace bool) *RunOut {
	out := &RunOut{Scenario: "infomodel", PlanJSON: planJSON, Faults: map[string]int{}, Probes: map[string]int{}, PlanHash: planHash(planJSON)}
	var base PipePlan
	if err := json.Unmarshal(planJSON, &base); err != nil {
		out.Inconclusive = "bad-plan"
		return out
	}
	var pubs [2]map[uint32][]byte
	for b, installed := range []bool{true, false} {
		p := base
		p.Cfg.ShippedElements = installed
		p.Cfg.ExtElements = false
		boot := "file-absent"
		if installed {
			boot = "file-installed"
		}
		finalizePipe(&p)
		var obs *PipeObs
		if pv := bubble(t, func() { obs = runPipe(&p, ch, trace, nil) }); pv != nil {
			out.Violations = append(out.Violations, Violation{Prop: prop, Class: "harness-panic", Key: "harness", Msg: fmt.Sprint(pv)})
			return out
		}
		fillRunOut(out, &p, obs)
		if obs.PanicVal != "" || obs.Exited || obs.HarnessErr != "" {
			out.Inconclusive = "collector-did-not-run: " + obs.PanicVal + obs.HarnessErr
			return out
		}
		// (a) state invariant on the model the collector ended up with
		checkInfoModelState(prop, boot, out)
		if len(out.Violations) > 0 {
			return out
		}
		// (b) published messages against the wire model (typed by the snapshot)
		before := len(out.Violations)
		checkModelEquality(prop, &p, obs, out, map[string]bool{pIPFIX: true}, false)
		for i := before; i < len(out.Violations); i++ {
			out.Violations[i].Msg = boot + ": " + out.Violations[i].Msg
			out.Violations[i].Key = boot + ": " + out.Violations[i].Key
		}
		if len(out.Violations) > before {
			return out
		}
		pubs[b] = map[uint32][]byte{}
		for i := range obs.Published {
			if s, ok := seqOf(pIPFIX, obs.Published[i].Payload); ok {
				pubs[b][s] = obs.Published[i].Payload
			}
		}
		out.Probes["published-"+boot] += len(obs.Published)
	}
	// differential between the boots
	for s, a := range pubs[0] {
		if b, ok := pubs[1][s]; !ok || !bytes.Equal(a, b) {
			out.Violations = append(out.Violations, Violation{Prop: prop, Class: "boots-differ", Key: "published message differs",
				Msg: fmt.Sprintf("the message for datagram seq %d differs depending on whether ipfix.elements is installed:\n installed: %s\n absent:    %s", s, tail(string(a), 400), tail(string(b), 400))})
			return out
		}
	}
	if len(pubs[0]) != len(pubs[1]) {
		out.Violations = append(out.Violations, Violation{Prop: prop, Class: "boots-differ", Key: "message count differs",
			Msg: fmt.Sprintf("%d messages with the file installed, %d without", len(pubs[0]), len(pubs[1]))})
	}
	out.NonTrivial = true
	out.Sample = map[string]interface{}{"scenario": "infomodel", "templates": len(base.Dels) / 2, "published_per_boot": len(pubs[0]), "elements_in_snapshot": len(model.Snapshot())}
	return out
}

var scInfoModel = defScenario(&Scenario{Name: "infomodel", Gen: genInfoModelFor, Exec: execInfoModel, Shrink: shrinkPipe})

func init() { register("C20", scInfoModel, 10) }

var _ = simrt.RaceBuild
