//go:build verif

package main

import (
	"bytes"
	"encoding/json"
	"fmt"
	"math/rand"
	"net"
	"runtime"
	"testing"

	"github.com/EdgeCast/vflow/ipfix"
	netflow5 "github.com/EdgeCast/vflow/netflow/v5"
	netflow9 "github.com/EdgeCast/vflow/netflow/v9"
	"github.com/EdgeCast/vflow/sflow"
	"github.com/EdgeCast/vflow/verifsim/model"
	"github.com/EdgeCast/vflow/verifsim/simrt"
)

// LibPlan is a library-level run: a history of datagrams of one protocol fed
// to the real decoder and encoder, one call at a time, with per-call metering.
type LibPlan struct {
	Proto       string         `json:"proto"`
	Exporters   []ExporterPlan `json:"exporters"`
	Items       []Delivery     `json:"items"`
	Filter      []uint32       `json:"filter,omitempty"`
	ExtElements bool           `json:"ext_elements"`
	Fuel        int64          `json:"fuel"`
}

// LibCall is what one decode+encode call did.
type LibCall struct {
	Item     int
	Len      int
	Records  int
	JSONLen  int
	Err      string
	Panic    string
	Stack    string
	Fuel     bool
	Alloc    uint64
	Decoded  bool
	JSON     []byte
}

// decoders holds the per-run template caches.
type decoders struct {
	ipfix  ipfix.MemCache
	nf9    netflow9.MemCache
	filter []uint32
}

func newDecoders(filter []uint32) *decoders {
	return &decoders{ipfix: ipfix.GetCache("/nonexistent/verif"), nf9: netflow9.GetCache("/nonexistent/verif"), filter: filter}
}

// decodeOne runs the real decode and encode for one datagram, exactly as the
// workers do, and reports the number of records / samples.
func (dc *decoders) decodeOne(proto string, ip net.IP, body []byte) (records int, js []byte, decoded bool, err error) {
	switch proto {
	case pIPFIX:
		m, e := ipfix.NewDecoder(ip, body).Decode(dc.ipfix)
		if m == nil {
			return 0, nil, false, e
		}
		if len(m.DataSets) > 0 {
			js, err = m.JSONMarshal(new(bytes.Buffer))
			if err == nil {
				js = append([]byte{}, js...)
			}
		}
		return len(m.DataSets), js, true, e
	case pNF9:
		m, e := netflow9.NewDecoder(ip, body).Decode(dc.nf9)
		if m == nil {
			return 0, nil, false, e
		}
		if m.DataSets != nil {
			js, err = m.JSONMarshal(new(bytes.Buffer))
			if err == nil {
				js = append([]byte{}, js...)
			}
		}
		return len(m.DataSets), js, true, e
	case pNF5:
		m, e := netflow5.NewDecoder(ip, body).Decode()
		if m == nil {
			return 0, nil, false, e
		}
		if m.Flows != nil {
			js, err = m.JSONMarshal(new(bytes.Buffer))
			if err == nil {
				js = append([]byte{}, js...)
			}
		}
		return len(m.Flows), js, true, e
	case pSFlow:
		d := sflow.NewSFDecoder(bytes.NewReader(body), dc.filter)
		dg, e := d.SFDecode()
		if e != nil || dg == nil || (len(dg.Counters) < 1 && len(dg.Samples) < 1) {
			return 0, nil, false, e
		}
		js, err = json.Marshal(dg)
		return len(dg.Samples) + len(dg.Counters), js, err == nil, err
	}
	return 0, nil, false, fmt.Errorf("unknown proto")
}

// guarded runs decodeOne with fuel, panic capture and allocation metering.
func (dc *decoders) guarded(proto string, ip net.IP, body []byte, item int) (c LibCall) {
	c.Item, c.Len = item, len(body)
	var ms0, ms1 runtime.MemStats
	runtime.ReadMemStats(&ms0)
	simrt.Refill()
	func() {
		defer func() {
			if r := recover(); r != nil {
				if _, ok := r.(simrt.FuelPanic); ok {
					c.Fuel = true
					return
				}
				buf := make([]byte, 8192)
				n := runtime.Stack(buf, false)
				c.Panic = fmt.Sprint(r)
				c.Stack = string(buf[:n])
			}
		}()
		n, js, dec, err := dc.decodeOne(proto, ip, body)
		c.Records, c.JSON, c.JSONLen, c.Decoded = n, js, len(js), dec
		if err != nil {
			c.Err = err.Error()
		}
	}()
	runtime.ReadMemStats(&ms1)
	c.Alloc = ms1.TotalAlloc - ms0.TotalAlloc
	return c
}

// encodeItems encodes the items in order, resolving data sets against the
// templates the generator announced so far (per exporter).
func encodeItems(items []Delivery, exporters []ExporterPlan) {
	cache := model.TplCache{}
	for i := range items {
		d := &items[i]
		switch {
		case d.Abs != nil && d.Raw == nil:
			ex := exporters[d.Exporter]
			d.payload = encodeFlowInOrder(d, ex.Addr, cache)
			for _, s := range d.Abs.Sets {
				if s.Kind == model.SetTemplate || s.Kind == model.SetOptions {
					for ti := range s.Tpls {
						t := s.Tpls[ti]
						cache[model.CacheKey(ex.Addr, t.ID)] = &t
					}
				}
			}
		default:
			d.payload = d.encode(nil)
		}
	}
}

func runLib(p *LibPlan, ch *simrt.Choices, trace bool) (calls []LibCall, steps uint64, th uint64) {
	sim := simrt.New(ch)
	defer sim.Close()
	sim.TraceOn = trace
	c := &NodeCfg{ExtElements: p.ExtElements, CapUDP: 1, CapMQ: 1, CapMirror: 1}
	resetGlobals(c)
	installFiles(sim, c)
	if p.ExtElements {
		ipfix.LoadExtElements(confDir)
	}
	fuel := p.Fuel
	if fuel <= 0 {
		fuel = 5000000
	}
	simrt.SetFuel(fuel)
	defer simrt.SetFuel(0)
	dc := newDecoders(p.Filter)
	done := false
	sim.GoNamed("lib", true, func() {
		for i := range p.Items {
			d := &p.Items[i]
			ex := &p.Exporters[d.Exporter]
			body := append([]byte(nil), d.payload...)
			calls = append(calls, dc.guarded(p.Proto, srcAddr(ex).IP, body, i))
			simrt.Yield(-30)
		}
		done = true
	})
	sim.OnIdle = func() bool { return done }
	sim.Run()
	steps, th = sim.Seq, sim.TraceHash
	sim.Teardown()
	return
}

// ---------------------------------------------------------------- generation

// genMutations draws transport-level corruptions for an encoded datagram.
func genMutations(r *rand.Rand, payload []byte, offsets []int, aligned bool) []Mutation {
	n := 1
	if r.Intn(5) == 0 {
		n = 2 + r.Intn(2)
	}
	var out []Mutation
	for i := 0; i < n; i++ {
		l := len(payload)
		if l == 0 {
			break
		}
		off := r.Intn(l)
		if len(offsets) > 0 && r.Intn(3) != 0 {
			off = offsets[r.Intn(len(offsets))]
		} else if aligned {
			off &^= 3
		}
		switch r.Intn(10) {
		case 0, 1:
			out = append(out, Mutation{Kind: "truncate", Off: r.Intn(l + 1)})
		case 2:
			out = append(out, Mutation{Kind: "flip", Off: off, Len: r.Intn(8)})
		case 3, 4, 5, 6:
			v := model.Boundary32(r)
			var val []byte
			switch {
			case aligned:
				val = []byte{byte(v >> 24), byte(v >> 16), byte(v >> 8), byte(v)}
			case r.Intn(2) == 0:
				val = []byte{byte(v >> 8), byte(v)}
			default:
				val = []byte{byte(v)}
			}
			out = append(out, Mutation{Kind: "overwrite", Off: off, Val: val})
		case 7:
			val := make([]byte, 1+r.Intn(12))
			r.Read(val)
			out = append(out, Mutation{Kind: "splice", Off: off, Val: val})
		case 8:
			val := make([]byte, r.Intn(64))
			r.Read(val)
			if len(val) >= 2 && r.Intn(2) == 0 {
				// keep a plausible version so the body is looked at
				copy(val, payload[:2])
			}
			out = append(out, Mutation{Kind: "garbage", Val: val})
		default:
			out = append(out, Mutation{Kind: "overwrite", Off: off, Val: []byte{byte(r.Intn(256)), byte(r.Intn(256))}})
		}
	}
	return out
}

func flowOffsets(m *model.Msg, tplOf func(uint16) *model.Template) []int {
	_, so := m.Encode(tplOf)
	offs := []int{2, 3}
	for i := range so.Start {
		offs = append(offs, so.Start[i], so.Start[i]+2, so.Start[i]+4, so.Start[i]+6, so.Start[i]+8, so.End[i]-2)
	}
	return offs
}

// genLibPlan builds a hostile history for one protocol.
func genLibPlan(seed int64, proto string, tier string) *LibPlan {
	r := rand.New(rand.NewSource(seed))
	p := &LibPlan{Proto: proto, ExtElements: r.Intn(2) == 0}
	nEx := 1 + r.Intn(3)
	for i := 0; i < nEx; i++ {
		p.Exporters = append(p.Exporters, ExporterPlan{Addr: genAddr(r, false), Port: 4000 + i, Proto: proto, SpareCap: r.Intn(2) == 0, Domain: uint32(i + 1)})
	}
	nItems := 10 + r.Intn(40)
	maxSize := 1400
	if r.Intn(4) == 0 {
		maxSize = []int{8900, 65000}[r.Intn(2)]
	}
	c := &NodeCfg{ExtElements: p.ExtElements}
	im := modelIM(c)
	seq := uint32(1)
	switch proto {
	case pIPFIX, pNF9:
		mp := "ipfix"
		if proto == pNF9 {
			mp = "nf9"
		}
		type exst struct {
			g    *model.Gen
			tpls []model.Template
		}
		var exs []*exst
		for range p.Exporters {
			g := model.NewGen(r, im, model.GenOpts{Proto: mp, Enterprise: p.ExtElements, HardStrings: true, NonFinite: true, VarLen: true, Reduced: true, TinyRecords: r.Intn(2) == 0, MaxSize: maxSize})
			exs = append(exs, &exst{g: g})
		}
		for len(p.Items) < nItems {
			ei := r.Intn(nEx)
			st := exs[ei]
			ex := p.Exporters[ei]
			m := &model.Msg{Proto: mp, Time: r.Uint32(), Seq: seq, Domain: ex.Domain, SysUp: r.Uint32()}
			seq++
			kind := r.Intn(10)
			switch {
			case len(st.tpls) == 0 || kind < 3:
				// announce templates, normal or degenerate
				var ts []model.Template
				n := 1 + r.Intn(3)
				for k := 0; k < n; k++ {
					id := uint16(256 + r.Intn(6))
					if r.Intn(3) == 0 {
						ts = append(ts, st.g.DegenerateTemplate(id))
					} else {
						ts = append(ts, st.g.Template(id))
					}
				}
				m.Sets = st.g.TemplateSets(ts)
				st.tpls = append(st.tpls, ts...)
				if r.Intn(2) == 0 {
					t := &ts[r.Intn(len(ts))]
					m.Sets = append(m.Sets, st.g.DataForTemplate(t, r.Intn(4)))
				}
			case kind < 8:
				ns := 1 + r.Intn(3)
				for s := 0; s < ns; s++ {
					t := &st.tpls[r.Intn(len(st.tpls))]
					if st.g.MinRecLen(t) > 0 && st.g.MinRecLen(t) < 400 && r.Intn(4) != 0 {
						ds, _ := st.g.DataSet(t, 1+r.Intn(6), 400)
						m.Sets = append(m.Sets, ds)
					} else {
						m.Sets = append(m.Sets, st.g.DataForTemplate(t, r.Intn(5)))
					}
				}
			default:
				m.Sets = st.g.HostileSets()
				if len(st.tpls) > 0 && r.Intn(2) == 0 {
					t := &st.tpls[r.Intn(len(st.tpls))]
					m.Sets = append(m.Sets, st.g.DataForTemplate(t, 1+r.Intn(3)))
				}
			}
			d := Delivery{ID: len(p.Items), Proto: proto, Exporter: ei, Abs: m}
			p.Items = append(p.Items, d)
		}
		// mutate a share of the datagrams
		encodeItems(p.Items, p.Exporters)
		for i := range p.Items {
			if r.Intn(3) == 0 {
				d := &p.Items[i]
				offs := flowOffsets(d.Abs, func(id uint16) *model.Template { return nil })
				d.Mut = genMutations(r, d.payload, offs, false)
			}
		}
	case pNF5:
		for len(p.Items) < nItems {
			ei := r.Intn(nEx)
			pk := model.GenV5(r, seq, uint8(ei), r.Intn(2) == 0)
			seq++
			d := Delivery{ID: len(p.Items), Proto: proto, Exporter: ei, V5: pk}
			if r.Intn(3) == 0 {
				d.Mut = genMutations(r, pk.Encode(), []int{0, 1, 2, 3}, false)
			}
			p.Items = append(p.Items, d)
		}
	case pSFlow:
		if r.Intn(3) == 0 {
			p.Filter = [][]uint32{{1}, {2}, {3, 4}}[r.Intn(3)]
		}
		for len(p.Items) < nItems {
			ei := r.Intn(nEx)
			var dg *model.SFDatagram
			if r.Intn(2) == 0 {
				dg = model.GenSFHostile(r, seq, uint32(ei), maxSize)
			} else {
				dg = model.GenSFDatagram(r, seq, uint32(ei), maxSize)
			}
			seq++
			d := Delivery{ID: len(p.Items), Proto: proto, Exporter: ei, SF: dg}
			if r.Intn(3) == 0 {
				d.Mut = genMutations(r, dg.Encode(), nil, true)
			}
			p.Items = append(p.Items, d)
		}
	}
	return p
}

func genLibFor(prop, tier string, seed int64) []byte {
	r := rand.New(rand.NewSource(seed ^ 0x11b))
	proto := allProtos[r.Intn(4)]
	b, _ := json.Marshal(genLibPlan(seed, proto, tier))
	return b
}

func execLib(t *testing.T, prop string, planJSON []byte, ch *simrt.Choices, trace bool) *RunOut {
	out := &RunOut{Scenario: "lib", PlanJSON: planJSON, Faults: map[string]int{}, Probes: map[string]int{}, PlanHash: planHash(planJSON)}
	var p LibPlan
	if err := json.Unmarshal(planJSON, &p); err != nil {
		out.Inconclusive = "bad-plan"
		return out
	}
	encodeItems(p.Items, p.Exporters)
	var calls []LibCall
	if pv := bubble(t, func() { calls, out.Steps, out.TraceHash = runLib(&p, ch, trace) }); pv != nil {
		out.Violations = append(out.Violations, Violation{Prop: prop, Class: "harness-panic", Key: "harness", Msg: fmt.Sprint(pv)})
		return out
	}
	out.Choices = ch.Rec
	out.NonTrivial = len(calls) > 0
	nDec, nRec := 0, 0
	for i := range calls {
		c := &calls[i]
		d := &p.Items[c.Item]
		for _, m := range d.Mut {
			out.Faults["net-"+m.Kind]++
		}
		if c.Decoded {
			nDec++
		}
		nRec += c.Records
		if c.Err != "" {
			out.Probes["decode-error"]++
		}
		desc := fmt.Sprintf("item %d (%s, %d octets, exporter %x)", c.Item, p.Proto, c.Len, p.Exporters[d.Exporter].Addr)
		switch prop {
		case "C01":
			if c.Panic != "" {
				out.Violations = append(out.Violations, Violation{Prop: prop, Class: "panic", Key: panicKey(c.Stack, c.Panic),
					Msg: fmt.Sprintf("%s: decode/encode panicked: %s\n%s\npayload: %x", desc, c.Panic, trimStack(c.Stack), trunc(d.payload, 300))})
			}
		case "C02":
			if c.Fuel {
				out.Violations = append(out.Violations, Violation{Prop: prop, Class: "no-progress", Key: p.Proto + ": no progress",
					Msg: fmt.Sprintf("%s: processing did not terminate within %d loop iterations\npayload: %x", desc, p.Fuel, trunc(d.payload, 300))})
			}
			if c.Records > c.Len {
				out.Violations = append(out.Violations, Violation{Prop: prop, Class: "too-many-records", Key: p.Proto,
					Msg: fmt.Sprintf("%s: %d records emitted for %d octets", desc, c.Records, c.Len)})
			}
			if limit := uint64(1<<20 + 2048*c.Len); c.Alloc > limit && c.Panic == "" && !c.Fuel {
				out.Violations = append(out.Violations, Violation{Prop: prop, Class: "alloc", Key: p.Proto,
					Msg: fmt.Sprintf("%s: %d octets allocated while processing (limit %d)\npayload: %x", desc, c.Alloc, limit, trunc(d.payload, 300))})
			} else if c.Alloc > limit && c.Panic != "" {
				out.Violations = append(out.Violations, Violation{Prop: prop, Class: "alloc", Key: p.Proto + " (then panic)",
					Msg: fmt.Sprintf("%s: %d octets allocated before panicking: %s", desc, c.Alloc, c.Panic)})
			}
		}
		if len(out.Violations) > 4 {
			break
		}
	}
	out.Probes["decoded"] = nDec
	out.Probes["records"] = nRec
	out.Probes["calls"] = len(calls)
	out.Sample = map[string]interface{}{"scenario": "lib", "proto": p.Proto, "items": len(p.Items), "decoded": nDec, "records": nRec,
		"first_item_octets": fmt.Sprintf("%x", trunc(p.Items[0].payload, 64))}
	return out
}

func trunc(b []byte, n int) []byte {
	if len(b) > n {
		return b[:n]
	}
	return b
}

func shrinkLib(planJSON []byte) [][]byte {
	var p LibPlan
	if json.Unmarshal(planJSON, &p) != nil {
		return nil
	}
	var out [][]byte
	n := len(p.Items)
	emit := func(items []Delivery) {
		q := p
		q.Items = items
		for i := range q.Items {
			q.Items[i].ID = i
		}
		b, _ := json.Marshal(&q)
		out = append(out, b)
	}
	for chunk := n / 2; chunk >= 1; chunk /= 2 {
		for s := 0; s < n; s += chunk {
			e := s + chunk
			if e > n {
				e = n
			}
			items := append(append([]Delivery(nil), p.Items[:s]...), p.Items[e:]...)
			if len(items) > 0 {
				emit(items)
			}
		}
		if chunk == 1 {
			break
		}
	}
	// drop mutations
	for i := range p.Items {
		if len(p.Items[i].Mut) > 0 {
			items := append([]Delivery(nil), p.Items...)
			items[i].Mut = nil
			emit(items)
		}
	}
	// drop sets inside flow messages
	for i := range p.Items {
		if p.Items[i].Abs == nil {
			continue
		}
		for si := range p.Items[i].Abs.Sets {
			if len(p.Items[i].Abs.Sets) < 2 {
				break
			}
			var q LibPlan
			json.Unmarshal(planJSON, &q)
			a := q.Items[i].Abs
			a.Sets = append(a.Sets[:si:si], a.Sets[si+1:]...)
			b, _ := json.Marshal(&q)
			out = append(out, b)
		}
	}
	return out
}

var scLib = defScenario(&Scenario{Name: "lib", Gen: genLibFor, Exec: execLib, Shrink: shrinkLib})

func init() {
	register("C01", scLib, 10)
	register("C02", scLib, 10)
}
