//go:build verif

package main

import (
	"encoding/json"
	"fmt"
	"math/rand"
	"testing"
	"time"

	"github.com/EdgeCast/vflow/ipfix"
	netflow9 "github.com/EdgeCast/vflow/netflow/v9"
	"github.com/EdgeCast/vflow/verifsim/model"
	"github.com/EdgeCast/vflow/verifsim/simrt"
)

// Life-cycle scenario (C15): the real main() receives traffic, then SIGTERM or
// SIGINT at a drawn simulated time (also coinciding with deliveries, read
// deadlines and the end of the shutdown sleep); the collector must stop within
// a few simulated seconds with status 0 and no panic; it is then restarted on
// the same simulated disk and must decode data for every template that had
// been acknowledged before the signal, without seeing the templates again.

// LifePlan is a sequence of incarnations sharing the disk.
type LifePlan struct {
	Incs []PipePlan `json:"incarnations"`
}

const exitBound = 5 * time.Second

func cacheFilesLoadable(files map[string][]byte, c *NodeCfg) []string {
	var errs []string
	check := func(path string, enabled bool) {
		if !enabled {
			return
		}
		b, ok := files[path]
		if !ok {
			errs = append(errs, path+": no cache file was left")
			return
		}
		var doc struct {
			Cache   []json.RawMessage
			ShardNo int
		}
		if err := json.Unmarshal(b, &doc); err != nil {
			errs = append(errs, fmt.Sprintf("%s: not valid JSON (%v): %s", path, err, tail(string(b), 120)))
			return
		}
		if doc.ShardNo != 32 {
			errs = append(errs, fmt.Sprintf("%s: ShardNo=%d", path, doc.ShardNo))
		}
	}
	check(ipfixCachePath, c.Enabled[pIPFIX])
	check(nf9CachePath, c.Enabled[pNF9])
	return errs
}

func execLife(t *testing.T, prop string, planJSON []byte, ch *simrt.Choices, trace bool) *RunOut {
	out := &RunOut{Scenario: "life", PlanJSON: planJSON, Faults: map[string]int{}, Probes: map[string]int{}, PlanHash: planHash(planJSON)}
	var lp LifePlan
	if err := json.Unmarshal(planJSON, &lp); err != nil {
		out.Inconclusive = "bad-plan"
		return out
	}
	var files map[string][]byte
	var ack model.TplCache // templates acknowledged so far (model of the cache files)
	ackUnknown := false    // the previous incarnation was signalled while booting: nothing is known about the files
	var allTrace []TraceStep
	var steps uint64
	raceMark := raceLogMark()
	for k := range lp.Incs {
		p := &lp.Incs[k]
		snaps := finalizePipeFrom(p, ack)
		var obs *PipeObs
		if pv := bubble(t, func() { obs = runPipe(p, ch, trace, files) }); pv != nil {
			out.Violations = append(out.Violations, Violation{Prop: prop, Class: "harness-panic", Key: "harness", Msg: fmt.Sprint(pv)})
			return out
		}
		fillRunOut(out, p, obs)
		allTrace = append(allTrace, obs.Trace...)
		out.Trace = allTrace
		steps += obs.Steps
		out.Steps = steps
		inc := fmt.Sprintf("incarnation %d", k+1)
		// no panic, whatever traffic is in flight
		if obs.PanicVal != "" {
			out.Violations = append(out.Violations, Violation{Prop: prop, Class: "panic", Key: panicKey(obs.PanicStack, obs.PanicVal),
				Msg: fmt.Sprintf("%s: task %s panicked %v after the signal (signal at %v): %s\n%s", inc, obs.PanicTask, obs.SimTime-obs.SignalAt, obs.SignalAt, obs.PanicVal, trimStack(obs.PanicStack))})
			return out
		}
		if obs.HarnessErr != "" {
			out.Inconclusive = "harness: " + obs.HarnessErr
			return out
		}
		signalled := p.Life.SignalPhase >= 0 || p.Life.SignalAbsUs > 0
		if signalled {
			if !obs.Signaled {
				out.Inconclusive = "signal-not-sent"
				return out
			}
			out.Probes["signals"]++
			switch {
			case obs.Exited && obs.ExitCode != 0:
				out.Violations = append(out.Violations, Violation{Prop: prop, Class: "exit-status", Key: fmt.Sprintf("exit(%d)", obs.ExitCode),
					Msg: fmt.Sprintf("%s: the collector exited with status %d after the signal; log tail: %s", inc, obs.ExitCode, tail(obs.Log, 400))})
				return out
			case !obs.MainDone && !obs.Exited:
				out.Violations = append(out.Violations, Violation{Prop: prop, Class: "no-exit", Key: "main did not return",
					Msg: fmt.Sprintf("%s: %v after the signal the collector is still running; log tail: %s", inc, obs.SimTime-obs.SignalAt, tail(obs.Log, 400))})
				return out
			default:
				end := obs.MainDoneAt
				if obs.Exited {
					end = obs.ExitAt
				}
				// stalls injected by the harness after the signal are not the collector's time
				if lat := end - obs.SignalAt; lat > exitBound+obs.StallAfterSignal {
					out.Violations = append(out.Violations, Violation{Prop: prop, Class: "slow-exit", Key: "exit latency",
						Msg: fmt.Sprintf("%s: the collector needed %v of simulated time to stop after the signal (bound %v plus %v of injected stalls)", inc, lat, exitBound, obs.StallAfterSignal)})
					return out
				}
			}
			if errs := cacheFilesLoadable(obs.Files, &p.Cfg); len(errs) > 0 && obs.Booted {
				out.Violations = append(out.Violations, Violation{Prop: prop, Class: "cache-file", Key: normKey(errs[0]), Msg: inc + ": " + errs[0]})
				return out
			}
			// reach probes
			if obs.Booted {
				out.Probes["signal-after-boot"]++
			} else {
				out.Probes["signal-during-boot"]++
			}
			for id, at := range obs.DeliveredAt {
				_ = id
				if at == obs.SignalAt {
					out.Probes["delivery-at-signal-instant"]++
				}
				if at == obs.SignalAt+time.Second {
					out.Probes["delivery-at-end-of-shutdown-sleep"]++
				}
				if at > obs.SignalAt {
					out.Probes["delivery-after-signal"]++
				}
			}
		}
		// data for acknowledged templates must decode in this incarnation:
		// every non-hostile, non-ambiguous delivery of phase 0 that the model
		// expects to publish must be published (checked by the equality oracle)
		if k > 0 && !ackUnknown {
			before := len(out.Violations)
			checkModelEquality(prop, p, obs, out, map[string]bool{pIPFIX: true, pNF9: true}, false)
			for i := before; i < len(out.Violations); i++ {
				v := &out.Violations[i]
				v.Class = "restart-" + v.Class
				v.Msg = inc + " (after restart): " + v.Msg
			}
			if len(out.Violations) > before {
				return out
			}
			out.Probes["restart-probes-published"] += len(obs.Published)
		}
		files = map[string][]byte{}
		for path, b := range obs.Files {
			if path == ipfixCachePath || path == nf9CachePath {
				files[path] = b
			}
		}
		// templates acknowledged: those in force at the start of the phase in
		// which the signal was sent (earlier phases were quiescent by then)
		ackUnknown = false
		switch {
		case p.Life.SignalAbsUs > 0 && p.Cfg.StallProb == 0 && k > 0:
			// signalled in the start-up window of a later incarnation, with no
			// stalls injected: start-up (including the load of the cache files)
			// takes no simulated time, the dump follows a one-second sleep, so
			// the files must come out as they went in: whatever was acknowledged
			// by earlier incarnations is still required
			out.Probes["signal-during-boot-of-later-incarnation"]++
		case p.Life.SignalAbsUs > 0 || !obs.Booted:
			ackUnknown = true
			// signalled during or right after boot: nothing new was acknowledged;
			// what was on disk may have been overwritten by a dump of a cache
			// that was not loaded yet, so nothing is required to survive
			ack = nil
		case p.Life.SignalPhase >= 0 && p.Life.SignalPhase < len(snaps):
			ack = snaps[p.Life.SignalPhase]
		default:
			ack = snaps[len(snaps)-1]
		}
	}
	if simrt.RaceBuild {
		checkRaceLog(prop, raceMark, out, lifeRaceScope)
	}
	out.NonTrivial = true
	out.Sample = map[string]interface{}{"scenario": "life", "incarnations": len(lp.Incs), "signal_phase": lp.Incs[0].Life.SignalPhase, "signal_at_us": lp.Incs[0].Life.SignalAtUs,
		"signal_abs_us": lp.Incs[0].Life.SignalAbsUs, "deliveries_first_incarnation": len(lp.Incs[0].Dels), "steps": out.Steps, "probes": out.Probes}
	return out
}

func genLifePlan(seed int64, tier string) *LifePlan {
	r := rand.New(rand.NewSource(seed))
	lp := &LifePlan{}
	protos := pickSubset(r, []string{pIPFIX, pNF9, pNF5, pSFlow})
	// the template protocols matter most here
	if r.Intn(3) != 0 {
		protos = pickSubset(r, []string{pIPFIX, pNF9})
	}
	nInc := 2 + r.Intn(3)
	o := PipeGenOpts{Protos: protos, Benign: true, Stalls: true, VarLen: true, MaxDels: 30}
	var prev *PipePlan
	for k := 0; k < nInc; k++ {
		p := genPipePlan(seed+int64(k)*7919, o)
		p.Profile = "life"
		if prev != nil {
			// same exporters and configuration; phase 0 carries data for the
			// templates of the previous incarnation (no templates), later phases
			// may announce new templates
			p.Cfg = prev.Cfg
			p.Cfg.DiskReadMs = 0
			p.Exporters = prev.Exporters
			var dels []Delivery
			// probes: data messages of the previous incarnation's later phases, re-stamped
			for _, d := range prev.Dels {
				if d.Abs == nil || d.DupOf > 0 || (d.Phase == 0 && prev.Life.SignalAbsUs == 0) || d.BadHeader || len(dels) >= 12 {
					continue
				}
				if prev.Life.SignalAbsUs > 0 && d.Phase != 0 {
					continue // the previous incarnation was stopped while starting: its phase 0 carried the probes
				}
				hasTpl := false
				for _, s := range d.Abs.Sets {
					if s.Kind == model.SetTemplate || s.Kind == model.SetOptions {
						hasTpl = true
					}
				}
				if hasTpl {
					continue
				}
				m := *d.Abs
				m.Seq = uint32(5000 + len(dels) + 100*k)
				dels = append(dels, Delivery{ID: len(dels), Phase: 0, AtUs: r.Intn(20000), Proto: d.Proto, Exporter: d.Exporter, Abs: &m})
			}
			p.Dels = dels
			p.NPhases = 1
			// in a later incarnation exporters may re-announce a template with a
			// shorter definition (the new cache file is then shorter than the one
			// on disk) and send data for it; the next incarnation must decode
			// that data with the new definition
			if r.Intn(2) == 0 {
				im := modelIM(&p.Cfg)
				type key struct {
					ex int
					id uint16
				}
				seen := map[key]bool{}
				var redo []key
				for _, d := range prev.Dels {
					if d.Abs == nil || d.Phase != 0 || d.DupOf > 0 {
						continue
					}
					for _, st := range d.Abs.Sets {
						for _, t := range st.Tpls {
							k := key{d.Exporter, t.ID}
							if !seen[k] && r.Intn(2) == 0 {
								seen[k] = true
								redo = append(redo, k)
							}
						}
					}
				}
				for _, k := range redo {
					ex := p.Exporters[k.ex]
					mp := "ipfix"
					if ex.Proto == pNF9 {
						mp = "nf9"
					}
					g := model.NewGen(r, im, model.GenOpts{Proto: mp, MaxFields: 2, MaxSize: 1200})
					nt := g.Template(k.id)
					nt.Options, nt.Scope = false, nil
					if len(nt.Fields) > 1 {
						nt.Fields = nt.Fields[:1]
					}
					if g.MinRecLen(&nt) == 0 {
						nt.Fields = []model.FieldSpec{{ID: 1, Len: 8}}
					}
					tm := &model.Msg{Proto: mp, Time: 7, Seq: uint32(6000 + len(p.Dels)), Domain: ex.Domain, Sets: g.TemplateSets([]model.Template{nt})}
					p.Dels = append(p.Dels, Delivery{ID: len(p.Dels), Phase: 1, AtUs: r.Intn(20000), Proto: ex.Proto, Exporter: k.ex, Abs: tm})
					ds, _ := g.DataSet(&nt, 1+r.Intn(3), 400)
					dm := &model.Msg{Proto: mp, Time: 8, Seq: uint32(6000 + len(p.Dels)), Domain: ex.Domain, Sets: []model.Set{ds}}
					p.Dels = append(p.Dels, Delivery{ID: len(p.Dels), Phase: 2, AtUs: r.Intn(20000), Proto: ex.Proto, Exporter: k.ex, Abs: dm})
				}
				if len(redo) > 0 {
					p.NPhases = 3
				}
			}
		}
		// stalls stay well below the one-second guard of the shutdown protocol
		if p.Cfg.StallMaxMs > 50 {
			p.Cfg.StallMaxMs = 50
		}
		p.Cfg.DiskChunk = []int{0, 0, 64, 512}[r.Intn(4)]
		if r.Intn(3) == 0 {
			// a busy machine: frequent short stalls (still 20 times below the 1 s guard)
			p.Cfg.StallProb = []int{200, 400, 800}[r.Intn(3)]
			p.Cfg.StallMaxMs = 50
		}
		last := k == nInc-1
		slow := !last && r.Intn(4) == 0
		if slow {
			// slow workers: long and frequent stalls, so that a backlog of template
			// announcements received shortly before the signal is still being
			// worked off (templates inserted) while shutdown dumps the cache
			p.Cfg.StallProb = []int{1500, 2500, 4000}[r.Intn(3)]
			p.Cfg.StallMaxMs = []int{100, 300}[r.Intn(2)]
			p.Cfg.StallFilter = "Worker|shutdown"
			p.Cfg.DiskChunk = []int{64, 256, 512}[r.Intn(3)]
			p.Cfg.CapUDP = 1000
		}
		if !last {
			// signal: at the opening of a phase, at a coinciding instant, at a random instant
			p.Life.SignalPhase = 1 + r.Intn(p.NPhases)
			if prev != nil {
				p.Life.SignalPhase = p.NPhases
			}
			switch r.Intn(5) {
			case 0:
				p.Life.SignalAtUs = 0
			case 1:
				p.Life.SignalAtUs = 1000 * (1 + r.Intn(3))
			case 2:
				p.Life.SignalAtUs = r.Intn(60000)
			default:
				p.Life.SignalAtUs = 1000 * r.Intn(1200)
			}
			p.Life.SigInt = r.Intn(3) == 0
			if prev == nil && r.Intn(12) == 0 {
				p.Life.SignalPhase = -1
				p.Life.SignalAbsUs = 1 + r.Intn(3000) // during boot
			}
			if prev != nil && prev.Life.SignalAbsUs == 0 && !slow && r.Intn(6) == 0 {
				// a later incarnation stopped while it starts (idle, or with the
				// first probes arriving): the cache files of the earlier
				// incarnations must survive it
				p.Life.SignalPhase = -1
				p.Life.SignalAbsUs = 1 + r.Intn(30000)
				p.Cfg.StallProb = 0
				// reading a file (the elements file, the cache file) may take a
				// while: the signal then arrives before the cache is loaded; the
				// two reads of a run loop stay well below the one-second sleep
				// that shutdown puts in front of the dump
				p.Cfg.DiskReadMs = []int{0, 20, 100, 300}[r.Intn(4)]
				p.NPhases = 1
				var keep []Delivery
				for _, d := range p.Dels {
					if d.Phase == 0 {
						d.ID = len(keep)
						keep = append(keep, d)
					}
				}
				p.Dels = keep
			}
			// traffic around and after the signal, in particular at the instant
			// the shutdown sleep ends (signal + 1 s)
			if p.Life.SignalPhase >= 0 && p.Life.SignalPhase < p.NPhases {
				n := len(p.Dels)
				// template announcements (the same definitions again) shortly before
				// the cache is dumped: workers insert while shutdown dumps
				for i := 0; i < n && len(p.Dels) < n+4; i++ {
					d := p.Dels[i]
					if d.Phase != 0 || d.Abs == nil || d.DupOf > 0 || r.Intn(2) == 0 {
						continue
					}
					d.Phase = p.Life.SignalPhase
					d.AtUs = p.Life.SignalAtUs + 1000000 - []int{0, 100, 1000, 5000, 20000}[r.Intn(5)]
					d.ID = len(p.Dels)
					m := *d.Abs
					m.Seq = uint32(8000 + len(p.Dels))
					d.Abs = &m
					p.Dels = append(p.Dels, d)
				}
				n = len(p.Dels)
				for i := 0; i < n && len(p.Dels) < n+8; i++ {
					d := p.Dels[i]
					if d.Phase != p.Life.SignalPhase || d.DupOf > 0 {
						continue
					}
					switch r.Intn(5) {
					case 0:
						d.AtUs = p.Life.SignalAtUs + 1000000
					case 1:
						d.AtUs = p.Life.SignalAtUs
					case 2:
						d.AtUs = p.Life.SignalAtUs + 1000000 - r.Intn(3)*1000
					case 3:
						// shortly before the end of the shutdown sleep: a bounded stall of
						// the receive loop can carry the hand-over past it
						d.AtUs = p.Life.SignalAtUs + 1000000 - []int{200, 500, 2000, 5000, 10000, 20000, 40000}[r.Intn(7)]
					default:
						d.AtUs = p.Life.SignalAtUs + r.Intn(1200000)
					}
					d.ID = len(p.Dels)
					d.DupOf = 0
					if d.Abs != nil {
						m := *d.Abs
						m.Seq = uint32(9000 + len(p.Dels))
						d.Abs = &m
					}
					p.Dels = append(p.Dels, d)
				}
				if slow {
					n = len(p.Dels)
					var tpl []int
					for i := 0; i < n; i++ {
						d := &p.Dels[i]
						if d.Phase == 0 && d.Abs != nil && d.DupOf == 0 && !d.BadHeader {
							tpl = append(tpl, i)
						}
					}
					for j := 0; len(tpl) > 0 && j < 10+r.Intn(30); j++ {
						d := p.Dels[tpl[r.Intn(len(tpl))]]
						d.Phase = p.Life.SignalPhase
						d.AtUs = p.Life.SignalAtUs - r.Intn(50000)
						if d.AtUs < 0 {
							d.AtUs = 0
						}
						d.AbsUs = 0
						d.ID = len(p.Dels)
						restamp(&d, uint32(14000+len(p.Dels)))
						p.Dels = append(p.Dels, d)
					}
				}
				// steady traffic that does not stop with the signal: one exporter per
				// protocol keeps sending with gaps below the one-second read deadline
				// for eight seconds; the collector must still stop within the bound
				if r.Intn(3) == 0 {
					n = len(p.Dels)
					period := []int{150000, 400000, 700000, 950000}[r.Intn(4)]
					for _, pr := range protos {
						if r.Intn(2) == 0 && len(protos) > 1 && len(p.Dels) > n {
							continue
						}
						src := -1
						for i := 0; i < n; i++ {
							d := &p.Dels[i]
							if d.Proto == pr && d.DupOf == 0 && !d.BadHeader && d.Raw == nil && d.Phase <= p.Life.SignalPhase {
								src = i
								if r.Intn(3) == 0 {
									break
								}
							}
						}
						if src < 0 {
							continue
						}
						for at := r.Intn(period); at < 8000000; at += period - r.Intn(period/10) {
							d := p.Dels[src]
							d.Phase = p.Life.SignalPhase
							d.AtUs = p.Life.SignalAtUs + at
							d.AbsUs = 0
							d.ID = len(p.Dels)
							restamp(&d, uint32(12000+len(p.Dels)))
							p.Dels = append(p.Dels, d)
						}
					}
				}
			}
		} else {
			p.Life.SignalPhase = -1
		}
		lp.Incs = append(lp.Incs, *p)
		prev = &lp.Incs[len(lp.Incs)-1]
	}
	return lp
}

func genLifeFor(prop, tier string, seed int64) []byte {
	b, _ := json.Marshal(genLifePlan(seed, tier))
	return b
}

func shrinkLife(planJSON []byte) [][]byte {
	var lp LifePlan
	if json.Unmarshal(planJSON, &lp) != nil {
		return nil
	}
	var out [][]byte
	// fewer incarnations
	for n := 1; n < len(lp.Incs); n++ {
		q := LifePlan{Incs: lp.Incs[:n]}
		b, _ := json.Marshal(&q)
		out = append(out, b)
	}
	// shrink the first incarnation with the pipeline shrinker
	b0, _ := json.Marshal(&lp.Incs[0])
	for _, cand := range shrinkPipe(b0) {
		var p PipePlan
		if json.Unmarshal(cand, &p) != nil {
			continue
		}
		q := LifePlan{Incs: append([]PipePlan{p}, lp.Incs[1:]...)}
		b, _ := json.Marshal(&q)
		out = append(out, b)
	}
	return out
}

var scLife = defScenario(&Scenario{Name: "life", Gen: genLifeFor, Exec: execLife, Shrink: shrinkLife})

func init() { register("C15", scLife, 10) }

var _ = ipfix.GetCache
var _ = netflow9.GetCache
