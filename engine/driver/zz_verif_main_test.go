//go:build verif

package main

import (
	"encoding/json"
	"fmt"
	"hash/fnv"
	"os"
	"runtime"
	"runtime/debug"
	"sort"
	"strings"
	"sync/atomic"
	"testing"
	"testing/synctest"
	"time"

	"github.com/EdgeCast/vflow/verifsim/simrt"
)

// Job is what verifctl asks one worker process to do.
type Job struct {
	Prop      string         `json:"prop"`
	Tier      string         `json:"tier"`
	Seed      int64          `json:"seed"`
	Worker    int            `json:"worker"`
	NWorkers  int            `json:"nworkers"`
	BudgetSec int            `json:"budget_sec"`
	MaxRuns   int            `json:"max_runs"`
	RunOffset int            `json:"run_offset"`
	Out       string         `json:"out"`
	Replay    string         `json:"replay,omitempty"`   // replay this file only
	Minimise  bool           `json:"minimise,omitempty"` // minimise violations found
	MinBudget int            `json:"min_budget_sec,omitempty"`
	TraceAll  bool           `json:"trace_all,omitempty"` // determinism self-test: log every run's trace hash
	Status    string         `json:"status"`              // file updated before each run (for crash attribution)
	Known     []KnownFinding `json:"known,omitempty"`
	OnlySeed  int64          `json:"only_seed,omitempty"` // execute the run of this seed only
	// history replay: execute runs RunOffset..HistoryTo with the seeds of worker
	// HistoryWorker, report the violations of the last one only
	HistoryTo     int  `json:"history_to,omitempty"`
	HistoryWorker int  `json:"history_worker,omitempty"`
	History       bool `json:"history,omitempty"`
}

// KnownFinding mirrors an entry of /verif/KNOWN_FINDINGS.
type KnownFinding struct {
	Prop  string `json:"prop"`
	Class string `json:"class"`
	Match string `json:"match"` // substring of the violation key
	Text  string `json:"text"`
}

// Violation is one oracle failure.
type Violation struct {
	Prop  string `json:"prop"`
	Class string `json:"class"` // stable violation class, used for minimisation and known-finding matching
	Key   string `json:"key"`   // identifying input shape / call site
	Msg   string `json:"msg"`
}

// Replay is the replay file format (DESIGN.md 4).
type Replay struct {
	Prop       string           `json:"property"`
	Scenario   string           `json:"scenario"`
	Violation  Violation        `json:"violation"`
	Seed       int64            `json:"seed"`
	Plan       json.RawMessage  `json:"plan"`
	Choices    simrt.ChoiceList `json:"choices"`
	ChoiceSeed int64            `json:"choice_seed,omitempty"`
	Trace      []TraceStep      `json:"schedule_trace,omitempty"`
	Faults     map[string]int   `json:"faults_fired,omitempty"`
	Minimised  bool             `json:"minimised"`
	Note       string           `json:"note,omitempty"`
	TreeHash   string           `json:"tree_hash,omitempty"`
	// History names the runs the reporting worker process had executed before
	// this one (all functions of these numbers). A violation that depends on
	// what the collector's process did in earlier runs - state the program keeps
	// for the life of the process - is replayed by executing runs From..To in a
	// fresh process; the violation must recur in run To.
	History *RunHistory `json:"history,omitempty"`
}

// RunHistory identifies a stretch of one worker's runs.
type RunHistory struct {
	JobSeed int64  `json:"job_seed"`
	Worker  int    `json:"worker"`
	Tier    string `json:"tier"`
	From    int    `json:"from"`
	To      int    `json:"to"`
	Replay  bool   `json:"replay,omitempty"` // set by verifctl: replay through the history, the plan alone does not reproduce it
}

// TraceStep is one scheduling decision in human-readable form.
type TraceStep struct {
	Seq  uint64 `json:"seq"`
	Task string `json:"task"`
	Site int32  `json:"site"`
	AtUs int64  `json:"t_us"`
}

// RunOut is what one simulated run reports.
type RunOut struct {
	Scenario     string
	PlanJSON     []byte
	Violations   []Violation
	Choices      []simrt.Choice
	Trace        []TraceStep
	Steps        uint64
	SimTime      time.Duration
	Faults       map[string]int
	Probes       map[string]int
	TraceHash    uint64
	ProjHash     uint64
	PlanHash     uint64
	StateHash    uint64
	NonTrivial   bool
	Inconclusive string
	Sample       interface{}
	RaceNotes    []string
}

// Scenario generates a plan from a seed and executes plans.
type Scenario struct {
	Name string
	// Gen derives the plan (JSON) from the run seed.
	Gen func(prop string, tier string, seed int64) []byte
	// Exec runs the plan with the given choice stream and evaluates the
	// property's oracles.
	Exec func(t *testing.T, prop string, plan []byte, ch *simrt.Choices, trace bool) *RunOut
	// Shrink proposes smaller plans (may be nil).
	Shrink func(plan []byte) [][]byte
}

// registry: property -> scenarios with weights
type weighted struct {
	S *Scenario
	W int
}

var registry = map[string][]weighted{}

func register(prop string, s *Scenario, w int) {
	registry[prop] = append(registry[prop], weighted{s, w})
}

var scenarios = map[string]*Scenario{}

func defScenario(s *Scenario) *Scenario {
	scenarios[s.Name] = s
	return s
}

// Result is the per-worker output file.
type Result struct {
	Prop          string            `json:"prop"`
	Worker        int               `json:"worker"`
	Runs          int               `json:"runs"`
	Steps         uint64            `json:"steps"`
	SimTimeMs     int64             `json:"sim_time_ms"`
	WallMs        int64             `json:"wall_ms"`
	Faults        map[string]int    `json:"faults"`
	Probes        map[string]int    `json:"probes"`
	Scenarios     map[string]int    `json:"scenarios"`
	Distinct      []uint64          `json:"distinct"`      // hashes of (plan, schedule) of non-trivial runs
	ProjDistinct  []uint64          `json:"proj_distinct"` // distinct schedule projections
	StateDistinct []uint64          `json:"state_distinct"`
	Inconclusive  map[string]int    `json:"inconclusive"`
	Violations    []Replay          `json:"violations"`
	Known         map[string]int    `json:"known"`
	KnownText     map[string]string `json:"known_text"`
	Samples       []interface{}     `json:"samples"`
	TraceLog      []string          `json:"trace_log,omitempty"`
	RaceBuild     bool              `json:"race_build"`
	Error         string            `json:"error,omitempty"`
	RaceNotes     map[string]int    `json:"race_notes,omitempty"`
}

func splitmix(x uint64) uint64 {
	x += 0x9e3779b97f4a7c15
	x = (x ^ (x >> 30)) * 0xbf58476d1ce4e5b9
	x = (x ^ (x >> 27)) * 0x94d049bb133111eb
	return x ^ (x >> 31)
}

func runSeed(base int64, prop string, worker, run int) int64 {
	h := fnv.New64a()
	h.Write([]byte(prop))
	x := splitmix(uint64(base) ^ h.Sum64())
	x = splitmix(x ^ uint64(worker)<<32 ^ uint64(run))
	return int64(x >> 12) // 52 bits: exact in JSON tooling that uses float64
}

var curRun atomic.Value // string: description of the run in progress

// watchdog runs outside any bubble on the real clock.
func watchdog(limit time.Duration, statusFile string) {
	var lastGen uint64
	var lastStep int64
	var since time.Time
	for {
		time.Sleep(250 * time.Millisecond)
		g, st := simrt.Progress()
		if st == 0 || g != lastGen || st != lastStep {
			lastGen, lastStep, since = g, st, time.Now()
			continue
		}
		if time.Since(since) > limit {
			desc, _ := curRun.Load().(string)
			buf := make([]byte, 1<<20)
			n := runtime.Stack(buf, true)
			os.WriteFile(statusFile+".hang", []byte(fmt.Sprintf("HANG step=%d for %v\nrun=%s\n%s", st, time.Since(since), desc, relevantStacks(string(buf[:n])))), 0644)
			os.Exit(3)
		}
	}
}

func relevantStacks(all string) string {
	var out []string
	for _, g := range strings.Split(all, "\n\n") {
		if strings.Contains(g, "[running") || strings.Contains(g, "[runnable") {
			out = append(out, g)
		}
	}
	s := strings.Join(out, "\n\n")
	if len(s) > 20000 {
		s = s[:20000]
	}
	return s
}

func TestVerif(t *testing.T) {
	jf := os.Getenv("VERIF_JOB")
	if jf == "" {
		t.Skip("VERIF_JOB not set")
	}
	b, err := os.ReadFile(jf)
	if err != nil {
		t.Fatal(err)
	}
	var job Job
	if err := json.Unmarshal(b, &job); err != nil {
		t.Fatal(err)
	}
	debug.SetGCPercent(200)
	res := &Result{Prop: job.Prop, Worker: job.Worker, Faults: map[string]int{}, Probes: map[string]int{}, Scenarios: map[string]int{},
		Inconclusive: map[string]int{}, Known: map[string]int{}, KnownText: map[string]string{}, RaceBuild: simrt.RaceBuild, RaceNotes: map[string]int{}}
	defer func() {
		out, _ := json.Marshal(res)
		os.WriteFile(job.Out, out, 0644)
	}()
	go watchdog(20*time.Second, job.Status)
	if msg := raceCanary(t); msg != "" {
		res.Error = msg
		return
	}
	if msg := raceBarrierSelfTest(t); msg != "" {
		res.Error = msg
		return
	}

	if job.Replay != "" {
		if h := historyOf(job.Replay); h != nil {
			job.Replay, job.History, job.Seed, job.Tier = "", true, h.JobSeed, h.Tier
			job.HistoryWorker, job.RunOffset, job.HistoryTo, job.MaxRuns = h.Worker, h.From, h.To, 0
			job.Known = nil
		} else {
			replayFile(t, &job, res)
			return
		}
	}
	scs := registry[job.Prop]
	if len(scs) == 0 {
		res.Error = "no scenario registered for " + job.Prop
		return
	}
	totalW := 0
	for _, w := range scs {
		totalW += w.W
	}
	start := time.Now()
	distinct := map[uint64]bool{}
	proj := map[uint64]bool{}
	states := map[uint64]bool{}
	seenViol := map[string]int{}
	for run := job.RunOffset; ; run++ {
		if job.MaxRuns > 0 && run-job.RunOffset >= job.MaxRuns {
			break
		}
		if time.Since(start) > time.Duration(job.BudgetSec)*time.Second && !job.History {
			break
		}
		if job.History && run > job.HistoryTo {
			break
		}
		seed := runSeed(job.Seed, job.Prop, job.Worker, run)
		if job.History {
			seed = runSeed(job.Seed, job.Prop, job.HistoryWorker, run)
		}
		if job.OnlySeed != 0 {
			seed = job.OnlySeed
		}
		// scenario choice from the seed
		k := int(splitmix(uint64(seed)) % uint64(totalW))
		var sc *Scenario
		for _, w := range scs {
			if k < w.W {
				sc = w.S
				break
			}
			k -= w.W
		}
		plan := sc.Gen(job.Prop, job.Tier, seed)
		desc := fmt.Sprintf("prop=%s scenario=%s seed=%d", job.Prop, sc.Name, seed)
		curRun.Store(desc)
		os.WriteFile(job.Status, []byte(fmt.Sprintf("%s\n", desc)), 0644)
		os.WriteFile(job.Status+".plan", plan, 0644)
		ch := simrt.NewChoices(seed ^ 0x5eed)
		simrt.TakeDeadlock()
		out := sc.Exec(t, job.Prop, plan, ch, false)
		noteDeadlock(job.Prop, out)
		res.Runs++
		res.Scenarios[sc.Name]++
		res.Steps += out.Steps
		res.SimTimeMs += int64(out.SimTime / time.Millisecond)
		for k, v := range out.Faults {
			res.Faults[k] += v
		}
		for k, v := range out.Probes {
			res.Probes[k] += v
		}
		for _, n := range out.RaceNotes {
			res.RaceNotes[n]++
		}
		if out.Inconclusive != "" {
			res.Inconclusive[out.Inconclusive]++
		}
		if out.NonTrivial {
			distinct[splitmix(out.PlanHash^out.TraceHash)] = true
		}
		proj[out.ProjHash] = true
		if out.StateHash != 0 {
			states[out.StateHash] = true
		}
		if job.TraceAll {
			res.TraceLog = append(res.TraceLog, fmt.Sprintf("%d %s %016x %016x steps=%d viol=%d", seed, sc.Name, out.PlanHash, out.TraceHash, out.Steps, len(out.Violations)))
		}
		if out.Sample != nil && len(res.Samples) < 3 {
			res.Samples = append(res.Samples, out.Sample)
		}
		if job.History {
			if run == job.HistoryTo {
				for _, v := range out.Violations {
					if matchKnown(job.Known, v) != nil {
						continue
					}
					res.Violations = append(res.Violations, Replay{Prop: job.Prop, Scenario: sc.Name, Violation: v, Seed: seed, Plan: plan, Choices: out.Choices, Faults: out.Faults,
						Note:    "depends on what the process executed before: replayed through the history of runs",
						History: &RunHistory{JobSeed: job.Seed, Worker: job.HistoryWorker, Tier: job.Tier, From: job.RunOffset, To: run, Replay: true}})
				}
			}
			continue
		}
		for _, v := range out.Violations {
			if kf := matchKnown(job.Known, v); kf != nil {
				res.Known[kf.Match]++
				res.KnownText[kf.Match] = kf.Text
				continue
			}
			vk := v.Class + "|" + v.Key
			// a few occurrences per key: one that depends on what the process
			// executed before does not reproduce elsewhere, a later one may
			if seenViol[vk] >= 2 || len(res.Violations) >= 4 {
				continue
			}
			seenViol[vk]++
			rp := Replay{Prop: job.Prop, Scenario: sc.Name, Violation: v, Seed: seed, Plan: plan, Choices: out.Choices, Faults: out.Faults}
			if job.OnlySeed == 0 {
				rp.History = &RunHistory{JobSeed: job.Seed, Worker: job.Worker, Tier: job.Tier, From: job.RunOffset, To: run}
			}
			if job.Minimise && v.Class != "race" {
				rp = minimise(t, sc, &job, rp)
			}
			// final run with tracing for the replay file
			tr := sc.Exec(t, job.Prop, rp.Plan, simrt.NewReplay(rp.Choices), true)
			rp.Trace = tr.Trace
			if len(rp.Trace) > 4000 {
				rp.Trace = rp.Trace[len(rp.Trace)-4000:]
			}
			if !hasViolation(tr.Violations, v.Class) && v.Class != "race" {
				rp.Note = "NON-REPLAYABLE in process: violation class did not recur on re-execution"
			}
			res.Violations = append(res.Violations, rp)
		}
		if len(res.Violations) >= 4 {
			break
		}
	}
	res.WallMs = int64(time.Since(start) / time.Millisecond)
	for h := range distinct {
		res.Distinct = append(res.Distinct, h)
	}
	for h := range proj {
		res.ProjDistinct = append(res.ProjDistinct, h)
	}
	for h := range states {
		res.StateDistinct = append(res.StateDistinct, h)
	}
	sort.Slice(res.Distinct, func(i, j int) bool { return res.Distinct[i] < res.Distinct[j] })
	sort.Slice(res.ProjDistinct, func(i, j int) bool { return res.ProjDistinct[i] < res.ProjDistinct[j] })
	sort.Slice(res.StateDistinct, func(i, j int) bool { return res.StateDistinct[i] < res.StateDistinct[j] })
}

func matchKnown(known []KnownFinding, v Violation) *KnownFinding {
	for i := range known {
		k := &known[i]
		if k.Prop == v.Prop && k.Class == v.Class && strings.Contains(v.Key, k.Match) {
			return k
		}
	}
	return nil
}

func hasViolation(vs []Violation, class string) bool {
	for _, v := range vs {
		if v.Class == class {
			return true
		}
	}
	return false
}

// historyOf returns the history of a replay file that is to be replayed
// through its history.
func historyOf(path string) *RunHistory {
	b, err := os.ReadFile(path)
	if err != nil {
		return nil
	}
	var rp struct {
		History *RunHistory `json:"history"`
	}
	if json.Unmarshal(b, &rp) != nil || rp.History == nil || !rp.History.Replay {
		return nil
	}
	return rp.History
}

func replayFile(t *testing.T, job *Job, res *Result) {
	b, err := os.ReadFile(job.Replay)
	if err != nil {
		res.Error = err.Error()
		return
	}
	var rp Replay
	if err := json.Unmarshal(b, &rp); err != nil {
		res.Error = err.Error()
		return
	}
	if rp.History != nil && rp.History.Replay {
		// handled by the caller: the run loop executes the history
		res.Error = "history replay reached replayFile"
		return
	}
	sc := scenarios[rp.Scenario]
	if sc == nil {
		res.Error = "unknown scenario " + rp.Scenario
		return
	}
	curRun.Store("replay " + job.Replay)
	os.WriteFile(job.Status, []byte("replay "+job.Replay+"\n"), 0644)
	os.WriteFile(job.Status+".plan", rp.Plan, 0644)
	chs := simrt.NewReplay(rp.Choices)
	if len(rp.Choices) == 0 && rp.ChoiceSeed != 0 {
		chs = simrt.NewChoices(rp.ChoiceSeed)
	}
	simrt.TakeDeadlock()
	out := sc.Exec(t, rp.Prop, rp.Plan, chs, true)
	noteDeadlock(rp.Prop, out)
	res.Runs = 1
	res.Steps = out.Steps
	res.Scenarios[sc.Name] = 1
	for _, v := range out.Violations {
		if v.Class == rp.Violation.Class {
			r2 := rp
			r2.Violation = v
			r2.Trace = out.Trace
			res.Violations = append(res.Violations, r2)
			return
		}
	}
	for _, v := range out.Violations {
		res.TraceLog = append(res.TraceLog, "other violation: "+v.Class+" "+v.Msg)
	}
}

// noteDeadlock turns a circular wait for program mutexes found by the
// scheduler (tasks waiting for ten simulated minutes for mutexes nobody
// releases) into a violation of the property being checked: whatever the
// property promises, the collector has stopped delivering it.
func noteDeadlock(prop string, out *RunOut) {
	d := simrt.TakeDeadlock()
	if d == "" || out == nil {
		return
	}
	out.Violations = append([]Violation{{Prop: prop, Class: "deadlock", Key: "tasks wait for mutexes for ever",
		Msg: "no task can run any more and these tasks wait for a program mutex that is never released: " + d}}, out.Violations...)
	out.Inconclusive = ""
}

// minimise shrinks plan then schedule while the same violation class recurs.
func minimise(t *testing.T, sc *Scenario, job *Job, rp Replay) Replay {
	budget := time.Duration(job.MinBudget) * time.Second
	if budget <= 0 {
		budget = 30 * time.Second
	}
	deadline := time.Now().Add(budget)
	class := rp.Violation.Class
	try := func(plan []byte, ch []simrt.Choice) (*RunOut, bool) {
		simrt.TakeDeadlock()
		out := sc.Exec(t, job.Prop, plan, simrt.NewReplay(ch), false)
		noteDeadlock(job.Prop, out)
		for _, v := range out.Violations {
			if v.Class == class {
				return out, true
			}
		}
		return out, false
	}
	// sanity: replays?
	out, ok := try(rp.Plan, rp.Choices)
	if !ok {
		rp.Note = "violation did not recur when replayed from recorded choices"
		return rp
	}
	rp.Choices = out.Choices
	// 1. plan
	if sc.Shrink != nil {
		progress := true
		for progress && time.Now().Before(deadline) {
			progress = false
			for _, cand := range sc.Shrink(rp.Plan) {
				if !time.Now().Before(deadline) {
					break
				}
				if o, ok := try(cand, rp.Choices); ok {
					rp.Plan = cand
					rp.Choices = o.Choices
					for _, v := range o.Violations {
						if v.Class == class {
							rp.Violation = v
						}
					}
					progress = true
					break
				}
			}
		}
	}
	// 2. schedule: default (non-preemptive) policy everywhere?
	if o, ok := try(rp.Plan, nil); ok {
		rp.Choices = o.Choices
		for i := range rp.Choices {
			_ = i
		}
		rp.Choices = nil
		rp.Note = "fails under the default non-preemptive schedule"
	} else {
		// replace chunks of choices by defaults (V=-1), ddmin style
		ch := append([]simrt.Choice(nil), rp.Choices...)
		n := 2
		for len(ch) > 0 && time.Now().Before(deadline) {
			chunk := (len(ch) + n - 1) / n
			reduced := false
			for s := 0; s < len(ch); s += chunk {
				e := s + chunk
				if e > len(ch) {
					e = len(ch)
				}
				cand := append([]simrt.Choice(nil), ch...)
				changed := false
				for i := s; i < e; i++ {
					if cand[i].V >= 0 {
						cand[i].V = -1
						changed = true
					}
				}
				if !changed {
					continue
				}
				if _, ok := try(rp.Plan, cand); ok {
					ch = cand
					reduced = true
				}
				if !time.Now().Before(deadline) {
					break
				}
			}
			if !reduced {
				if chunk <= 1 {
					break
				}
				n *= 2
				if n > len(ch) {
					n = len(ch)
				}
			}
		}
		// drop trailing defaults
		for len(ch) > 0 && ch[len(ch)-1].V < 0 {
			ch = ch[:len(ch)-1]
		}
		rp.Choices = ch
	}
	rp.Minimised = true
	return rp
}

// bubble runs f inside a fresh synctest bubble and recovers the end-of-bubble
// deadlock panic caused by abandoned goroutines.
func bubble(t *testing.T, f func()) (panicked interface{}) {
	// The bubble runs on its own goroutine: when the race detector has fired,
	// testing marks the bubble's inner test failed and synctest.Test calls
	// t.FailNow(), which must not unwind the job loop.
	done := make(chan struct{})
	go func() {
		defer close(done)
		defer func() {
			if r := recover(); r != nil {
				s := fmt.Sprint(r)
				if strings.Contains(s, "deadlock") && strings.Contains(s, "bubble") {
					return
				}
				panicked = r
			}
		}()
		synctest.Test(t, func(t *testing.T) {
			f()
		})
	}()
	<-done
	return panicked
}

func hash64(b []byte) uint64 {
	h := fnv.New64a()
	h.Write(b)
	return h.Sum64()
}

func traceOf(s *simrt.Sim) []TraceStep {
	names := s.TaskNameTable()
	out := make([]TraceStep, 0, len(s.Trace))
	for _, st := range s.Trace {
		n := ""
		if int(st.Task) < len(names) {
			n = names[st.Task]
		}
		out = append(out, TraceStep{Seq: st.Seq, Task: fmt.Sprintf("%d:%s", st.Task, n), Site: st.Site, AtUs: st.At / 1000})
	}
	return out
}
