//go:build verif

package main

import (
	"encoding/json"
	"fmt"
	"net/http"
	"net/http/httptest"
	"strconv"
	"strings"
	"time"

	"github.com/EdgeCast/vflow/ipfix"
	"github.com/EdgeCast/vflow/verifsim/model"
	"github.com/EdgeCast/vflow/verifsim/simrt"
	"github.com/prometheus/client_golang/prometheus"
)

// Protocol names used throughout the driver.
const (
	pIPFIX = "ipfix"
	pNF9   = "nf9"
	pNF5   = "nf5"
	pSFlow = "sflow"
)

var allProtos = []string{pIPFIX, pNF9, pNF5, pSFlow}

var defaultPort = map[string]int{pIPFIX: 4739, pNF9: 4729, pNF5: 9996, pSFlow: 6343}

// the built-in information model as compiled into the binary (LoadExtElements
// replaces the package variable; every boot starts from the original)
var origInfoModel = func() map[ipfix.ElementKey]ipfix.InfoElementEntry {
	m := map[ipfix.ElementKey]ipfix.InfoElementEntry{}
	for k, v := range ipfix.InfoModel {
		m[k] = v
	}
	return m
}()

// NodeCfg is the configuration of one collector incarnation.
type NodeCfg struct {
	Enabled         map[string]bool   `json:"enabled"`
	Workers         map[string]int    `json:"workers"`
	Ports           map[string]int    `json:"ports,omitempty"`
	UDPSize         map[string]int    `json:"udp_size,omitempty"`
	CapUDP          int               `json:"cap_udp"`
	CapMQ           int               `json:"cap_mq"`
	CapMirror       int               `json:"cap_mirror"`
	SockQueue       int               `json:"sock_queue"`
	PoolPolicy      int               `json:"pool_policy"`
	Poison          bool              `json:"poison"`
	StallProb       int               `json:"stall_prob"`
	StallFilter     string            `json:"stall_filter,omitempty"` // stalls only for tasks with such a function on their stack
	StallMaxMs      int               `json:"stall_max_ms"`
	KeepBias        int               `json:"keep_bias"`
	Producer        string            `json:"producer"` // tap | rawtcp | rawudp
	RetryMax        int               `json:"retry_max"`
	MirrorIPFIX     string            `json:"mirror_ipfix,omitempty"`
	MirrorSFlow     string            `json:"mirror_sflow,omitempty"`
	MirrorPort      int               `json:"mirror_port,omitempty"`
	MirrorWorkers   int               `json:"mirror_workers,omitempty"`
	SFlowFilter     []uint32          `json:"sflow_filter,omitempty"`
	FilterViaFile   bool              `json:"filter_via_file,omitempty"` // the filter is given in vflow.conf instead of on the command line
	ExtElements     bool              `json:"ext_elements"`              // install ipfix.elements incl. the enterprise section
	ShippedElements bool              `json:"shipped_elements"`          // install scripts/ipfix.elements verbatim
	Verbose         bool              `json:"verbose,omitempty"`
	DynWorkers      bool              `json:"dyn_workers,omitempty"`
	DiskChunk       int               `json:"disk_chunk,omitempty"`
	RawSendDelayUs  int               `json:"raw_send_delay_us,omitempty"` // every send on the mirror's raw socket blocks this long
	TapDelayUs      int               `json:"tap_delay_us,omitempty"` // the consumer of the outgoing queues waits this long before each message
	DiskReadMs      int               `json:"disk_read_ms,omitempty"` // simulated duration of a whole-file read
	ExtraArgs       []string          `json:"extra_args,omitempty"`
	Env             map[string]string `json:"env,omitempty"`
	// deployment layout: the files of the configuration directory are symbolic
	// links into a data directory (how a Kubernetes ConfigMap volume presents
	// them); the temporary directory is on another file system than /tmp
	StatsProm  bool `json:"stats_prom,omitempty"` // stats-format prometheus (vFlow's default): counters are read from /metrics
	ConfLinked bool `json:"conf_linked,omitempty"`
	TmpOtherFS bool `json:"tmp_other_fs,omitempty"`
	ConfFile        string            `json:"conf_file,omitempty"` // content of /etc/vflow/vflow.conf
	IPFIXCache      string            `json:"ipfix_cache,omitempty"`
	NF9Cache        string            `json:"nf9_cache,omitempty"`
}

const (
	ipfixCachePath = "/tmp/vflow.templates"
	nf9CachePath   = "/tmp/netflowv9.templates"
	confDir        = "/etc/vflow"
)

func (c *NodeCfg) port(p string) int {
	if v, ok := c.Ports[p]; ok && v != 0 {
		return v
	}
	return defaultPort[p]
}

func (c *NodeCfg) udpSize(p string) int {
	if v, ok := c.UDPSize[p]; ok && v != 0 {
		return v
	}
	return 1500
}

// resetGlobals re-creates, inside the bubble, every piece of package-level
// state of package main and of the ipfix package.
func resetGlobals(c *NodeCfg) {
	ipfixUDPCh = make(chan IPFIXUDPMsg, c.CapUDP)
	ipfixMCh = make(chan IPFIXUDPMsg, c.CapMirror)
	ipfixMQCh = make(chan []byte, c.CapMQ)
	sFlowUDPCh = make(chan SFUDPMsg, c.CapUDP)
	sFlowMCh = make(chan SFUDPMsg, c.CapMirror)
	sFlowMQCh = make(chan []byte, c.CapMQ)
	netflowV5UDPCh = make(chan NetflowV5UDPMsg, c.CapUDP)
	netflowV5MQCh = make(chan []byte, c.CapMQ)
	netflowV9UDPCh = make(chan NetflowV9UDPMsg, c.CapUDP)
	netflowV9MQCh = make(chan []byte, c.CapMQ)
	ipfixMirrorEnabled = false
	sFlowMirrorEnabled = false
	mCache = nil
	mCacheNF9 = nil
	opts = nil
	logger = nil
	im := ipfix.IANAInfoModel{}
	for k, v := range origInfoModel {
		im[k] = v
	}
	ipfix.InfoModel = im
	// the Prometheus stats API registers its collectors and its handler in
	// process-wide tables: a new process has empty ones
	reg := prometheus.NewRegistry()
	prometheus.DefaultRegisterer, prometheus.DefaultGatherer = reg, reg
	http.DefaultServeMux = http.NewServeMux()
}

func bootArgs(c *NodeCfg) []string {
	a := []string{"vflow"}
	add := func(k string, v interface{}) { a = append(a, "-"+k+"="+fmt.Sprint(v)) }
	add("ipfix-enabled", c.Enabled[pIPFIX])
	add("netflow9-enabled", c.Enabled[pNF9])
	add("netflow5-enabled", c.Enabled[pNF5])
	add("sflow-enabled", c.Enabled[pSFlow])
	add("ipfix-workers", c.Workers[pIPFIX])
	add("netflow9-workers", c.Workers[pNF9])
	add("netflow5-workers", c.Workers[pNF5])
	add("sflow-workers", c.Workers[pSFlow])
	add("ipfix-port", c.port(pIPFIX))
	add("netflow9-port", c.port(pNF9))
	add("netflow5-port", c.port(pNF5))
	add("sflow-port", c.port(pSFlow))
	add("ipfix-max-udp-size", c.udpSize(pIPFIX))
	add("netflow9-max-udp-size", c.udpSize(pNF9))
	add("netflow5-max-udp-size", c.udpSize(pNF5))
	add("sflow-max-udp-size", c.udpSize(pSFlow))
	add("ipfix-rpc-enabled", false)
	add("dynamic-workers", c.DynWorkers)
	add("stats-enabled", true)
	if c.StatsProm {
		add("stats-format", "prometheus")
	} else {
		add("stats-format", "restful")
	}
	add("verbose", c.Verbose)
	add("ipfix-tpl-cache-file", ipfixCachePath)
	add("netflow9-tpl-cache-file", nf9CachePath)
	if c.Producer == "tap" || c.Producer == "" {
		add("producer-enabled", false)
	} else {
		add("producer-enabled", true)
		add("mqueue", "rawSocket")
	}
	if c.MirrorIPFIX != "" {
		add("ipfix-mirror-addr", c.MirrorIPFIX)
		add("ipfix-mirror-port", c.MirrorPort)
		add("ipfix-mirror-workers", c.MirrorWorkers)
	}
	if c.MirrorSFlow != "" {
		add("sflow-mirror-addr", c.MirrorSFlow)
		add("sflow-mirror-port", c.MirrorPort+1)
		add("sflow-mirror-workers", c.MirrorWorkers)
	}
	if len(c.SFlowFilter) > 0 && !c.FilterViaFile {
		var s []string
		for _, f := range c.SFlowFilter {
			s = append(s, strconv.FormatUint(uint64(f), 10))
		}
		add("sflow-type-filter", strings.Join(s, ","))
	}
	a = append(a, c.ExtraArgs...)
	return a
}

// installFiles prepares the simulated disk of an incarnation.
func installFiles(s *simrt.Sim, c *NodeCfg) {
	if c.Producer == "rawtcp" || c.Producer == "rawudp" {
		proto := "tcp"
		if c.Producer == "rawudp" {
			proto = "udp"
		}
		s.FS.Put(confDir+"/mq.conf", []byte(fmt.Sprintf("url: sink.example:9555\nprotocol: %s\nretry-max: %d\n", proto, c.RetryMax)))
	}
	if c.ExtElements {
		im := model.Snapshot()
		for _, e := range model.EnterpriseElements() {
			im[model.ElemKey{PEN: e.PEN, ID: e.ID}] = e
		}
		s.FS.Put(confDir+"/ipfix.elements", model.ElementsYAML(im))
	} else if c.ShippedElements {
		s.FS.Put(confDir+"/ipfix.elements", shippedElements())
	}
	if c.ConfFile != "" {
		s.FS.Put(confDir+"/vflow.conf", []byte(c.ConfFile))
	} else if len(c.SFlowFilter) > 0 && c.FilterViaFile {
		var l []string
		for _, f := range c.SFlowFilter {
			l = append(l, strconv.FormatUint(uint64(f), 10))
		}
		s.FS.Put(confDir+"/vflow.conf", []byte("sflow-type-filter: ["+strings.Join(l, ", ")+"]\n"))
	}
	if c.ConfLinked {
		for _, name := range []string{"ipfix.elements", "vflow.conf", "mq.conf"} {
			if b, ok := s.FS.Get(confDir + "/" + name); ok {
				s.FS.Remove(confDir + "/" + name)
				s.FS.Put(confDir+"/..data/"+name, b)
				s.FS.PutSymlink(confDir+"/"+name, "..data/"+name)
			}
		}
	}
	if c.TmpOtherFS {
		s.FS.Mounts = []string{"/tmp", "/var/tmp"}
	}
	if c.IPFIXCache != "" {
		s.FS.Put(ipfixCachePath, []byte(c.IPFIXCache))
	}
	if c.NF9Cache != "" {
		s.FS.Put(nf9CachePath, []byte(c.NF9Cache))
	}
}

// modelIM is the information model the decoder under test is expected to use
// for a configuration.
func modelIM(c *NodeCfg) model.InfoModel {
	im := model.Snapshot()
	if c.ExtElements {
		for _, e := range model.EnterpriseElements() {
			im[model.ElemKey{PEN: e.PEN, ID: e.ID}] = e
		}
	}
	return im
}

// FlowStats is the /flow document of the stats API.
type FlowStats struct {
	IPFIX, SFlow, NetflowV5, NetflowV9 *ProtoStats
}

// ProtoStats are the counters of one protocol.
type ProtoStats struct {
	UDPQueue, UDPMirrorQueue, MessageQueue int
	UDPCount, DecodedCount, MQErrorCount   uint64
	Workers                                int32
}

func (f *FlowStats) get(p string) *ProtoStats {
	if f == nil {
		return nil
	}
	switch p {
	case pIPFIX:
		return f.IPFIX
	case pNF9:
		return f.NetflowV9
	case pNF5:
		return f.NetflowV5
	case pSFlow:
		return f.SFlow
	}
	return nil
}

// fetchStats calls the real /flow handler registered by statsRest.
func fetchStats(s *simrt.Sim) (*FlowStats, string) {
	if len(s.HTTP) == 0 {
		return nil, "no stats server"
	}
	rec := httptest.NewRecorder()
	req := httptest.NewRequest("GET", "/flow", nil)
	if s.HTTP[0].Handler == nil {
		// ListenAndServe(addr, nil): the default mux, where the Prometheus API lives
		return fetchProm(s)
	}
	if simrt.Self() == nil {
		// called by the scheduler goroutine (between steps), which runs with
		// race synchronisation events switched off: switch them on for the
		// program code. A task already runs with them on - and there the
		// toggle would switch them off (the runtime ignores synchronisation
		// whenever its per-goroutine counter is not zero, also when negative).
		simrt.RaceSyncOn()
		s.HTTP[0].Handler.ServeHTTP(rec, req)
		simrt.RaceSyncOff()
	} else {
		simrt.BootAcquire()
		s.HTTP[0].Handler.ServeHTTP(rec, req)
	}
	var fs FlowStats
	if err := json.Unmarshal(rec.Body.Bytes(), &fs); err != nil {
		return nil, "stats: " + err.Error() + ": " + rec.Body.String()
	}
	return &fs, ""
}

// fetchProm reads the counters from the Prometheus text exposition.
func fetchProm(s *simrt.Sim) (*FlowStats, string) {
	rec := httptest.NewRecorder()
	req := httptest.NewRequest("GET", "/metrics", nil)
	h := http.DefaultServeMux
	if simrt.Self() == nil {
		simrt.RaceSyncOn()
		h.ServeHTTP(rec, req)
		simrt.RaceSyncOff()
	} else {
		simrt.BootAcquire()
		h.ServeHTTP(rec, req)
	}
	if rec.Code != 200 {
		return nil, fmt.Sprintf("stats: /metrics answered %d: %s", rec.Code, tail(rec.Body.String(), 200))
	}
	fs := &FlowStats{IPFIX: &ProtoStats{}, SFlow: &ProtoStats{}, NetflowV5: &ProtoStats{}, NetflowV9: &ProtoStats{}}
	seen := 0
	for _, line := range strings.Split(rec.Body.String(), "\n") {
		if !strings.HasPrefix(line, "vflow_") {
			continue
		}
		f := strings.Fields(line)
		if len(f) != 2 {
			continue
		}
		v, err := strconv.ParseFloat(f[1], 64)
		if err != nil {
			return nil, "stats: /metrics line " + line
		}
		name := strings.TrimPrefix(f[0], "vflow_")
		i := strings.Index(name, "_")
		if i < 0 {
			continue
		}
		var ps *ProtoStats
		switch name[:i] {
		case "ipfix":
			ps = fs.IPFIX
		case "sflow":
			ps = fs.SFlow
		case "netflowv5":
			ps = fs.NetflowV5
		case "netflowv9":
			ps = fs.NetflowV9
		default:
			continue
		}
		seen++
		switch name[i+1:] {
		case "udp_packets":
			ps.UDPCount = uint64(v)
		case "decoded_packets":
			ps.DecodedCount = uint64(v)
		case "mq_error":
			ps.MQErrorCount = uint64(v)
		case "workers":
			ps.Workers = int32(v)
		case "udp_queue":
			ps.UDPQueue = int(v)
		case "message_queue":
			ps.MessageQueue = int(v)
		case "udp_mirror_queue":
			ps.UDPMirrorQueue = int(v)
		}
	}
	if seen == 0 {
		return nil, "stats: /metrics carries no vflow_ series: " + tail(rec.Body.String(), 200)
	}
	return fs, ""
}

// Published is one message taken from a message-queue channel / the sink.
type Published struct {
	Proto   string
	Payload []byte
	Seq     uint64
	At      time.Duration
}

func mqChan(p string) chan []byte {
	switch p {
	case pIPFIX:
		return ipfixMQCh
	case pNF9:
		return netflowV9MQCh
	case pNF5:
		return netflowV5MQCh
	case pSFlow:
		return sFlowMQCh
	}
	return nil
}

func udpChanLen(p string) int {
	switch p {
	case pIPFIX:
		return len(ipfixUDPCh)
	case pNF9:
		return len(netflowV9UDPCh)
	case pNF5:
		return len(netflowV5UDPCh)
	case pSFlow:
		return len(sFlowUDPCh)
	}
	return 0
}

func mirrorChanLen() int { return len(ipfixMCh) + len(sFlowMCh) }

var shippedElementsData []byte

func shippedElements() []byte { return shippedElementsData }
