//go:build verif

package main

import (
	"bytes"
	"encoding/json"
	"fmt"
	"net"
	"regexp"
	"sort"
	"strconv"
	"strings"
	"time"

	"github.com/EdgeCast/vflow/ipfix"
	netflow5 "github.com/EdgeCast/vflow/netflow/v5"
	netflow9 "github.com/EdgeCast/vflow/netflow/v9"
	"github.com/EdgeCast/vflow/sflow"
	"github.com/EdgeCast/vflow/verifsim/model"
)

var (
	reSeqIPFIX = regexp.MustCompile(`"SequenceNo":(\d+)`)
	reSeqNF    = regexp.MustCompile(`"SeqNum":(\d+)`)
	reDigits   = regexp.MustCompile(`\d+`)
	reColTime  = regexp.MustCompile(`"ColTime":-?\d+`)
)

func sniffProto(b []byte) string {
	switch {
	case bytes.Contains(b, []byte(`"Header":{"Version":10,`)):
		return pIPFIX
	case bytes.Contains(b, []byte(`"Flows":[`)):
		return pNF5
	case bytes.Contains(b, []byte(`"Header":{"Version":9,`)):
		return pNF9
	case bytes.Contains(b, []byte(`"SamplesNo":`)):
		return pSFlow
	}
	return ""
}

// seqOf extracts the sequence number the exporter stamped into the header.
func seqOf(proto string, b []byte) (uint32, bool) {
	var m [][]byte
	switch proto {
	case pIPFIX:
		m = reSeqIPFIX.FindSubmatch(b)
	case pNF9, pNF5:
		m = reSeqNF.FindSubmatch(b)
	case pSFlow:
		// top-level SequenceNo: parse properly (samples carry their own)
		var top struct{ SequenceNo uint32 }
		if json.Unmarshal(b, &top) == nil {
			return top.SequenceNo, true
		}
		return 0, false
	}
	if m == nil {
		return 0, false
	}
	v, err := strconv.ParseUint(string(m[1]), 10, 32)
	return uint32(v), err == nil
}

func seqOfDelivery(d *Delivery) uint32 {
	switch {
	case d.Abs != nil:
		return d.Abs.Seq
	case d.V5 != nil:
		return d.V5.Seq
	case d.SF != nil:
		return d.SF.Seq
	}
	return 0
}

// pubIndex groups published messages by (proto, seq).
type pubIndex map[string][]int

func indexPublished(obs *PipeObs) pubIndex {
	idx := pubIndex{}
	for i := range obs.Published {
		p := &obs.Published[i]
		if p.Proto == "" {
			p.Proto = sniffProto(p.Payload)
		}
		s, ok := seqOf(p.Proto, p.Payload)
		k := p.Proto + "/?"
		if ok {
			k = fmt.Sprintf("%s/%d", p.Proto, s)
		}
		idx[k] = append(idx[k], i)
	}
	return idx
}

func receivedCount(obs *PipeObs) map[int]int {
	m := map[int]int{}
	for _, r := range obs.Recv {
		m[r.ID]++
	}
	return m
}

func normKey(s string) string {
	s = reDigits.ReplaceAllString(s, "N")
	if len(s) > 160 {
		s = s[:160]
	}
	return s
}

// panicKey names the vFlow function in which a panic was raised.
func panicKey(stack, val string) string {
	fn := "?"
	ls := strings.Split(stack, "\n")
	for i := 0; i+1 < len(ls); i++ {
		l, file := ls[i], ls[i+1]
		if !strings.HasPrefix(strings.TrimSpace(file), "/") {
			continue
		}
		if strings.Contains(file, "zz_verif") || strings.Contains(file, "/verifsim/") || !strings.Contains(file, "/src/") {
			continue
		}
		if strings.HasPrefix(l, "github.com/EdgeCast/vflow/") || strings.HasPrefix(l, "main.") {
			fn = l
			if j := strings.LastIndex(fn, "("); j > 0 {
				fn = fn[:j]
			}
			fn = strings.TrimPrefix(fn, "github.com/EdgeCast/vflow/")
			break
		}
	}
	return fn + ": " + normKey(val)
}

// ---------------------------------------------------------------- no-crash oracle (C01, C15, C16)

func checkNoCrash(prop string, p *PipePlan, obs *PipeObs, out *RunOut, allowExit bool) {
	if obs.PanicVal != "" {
		out.Violations = append(out.Violations, Violation{Prop: prop, Class: "panic", Key: panicKey(obs.PanicStack, obs.PanicVal),
			Msg: fmt.Sprintf("task %s panicked: %s\n%s", obs.PanicTask, obs.PanicVal, trimStack(obs.PanicStack))})
	}
	if obs.Exited && !allowExit {
		out.Violations = append(out.Violations, Violation{Prop: prop, Class: "exit", Key: fmt.Sprintf("exit(%d)", obs.ExitCode),
			Msg: fmt.Sprintf("collector exited with status %d at %v; log tail: %s", obs.ExitCode, obs.ExitAt, tail(obs.Log, 400))})
	}
}

func trimStack(s string) string {
	var keep []string
	for _, l := range strings.Split(s, "\n") {
		if strings.Contains(l, "verifsim/simrt") || strings.Contains(l, "runtime/") && !strings.Contains(l, "panic") {
			continue
		}
		keep = append(keep, l)
		if len(keep) > 24 {
			break
		}
	}
	return strings.Join(keep, "\n")
}

func tail(s string, n int) string {
	if len(s) > n {
		return s[len(s)-n:]
	}
	return s
}

// ---------------------------------------------------------------- equality with the wire model (C03 C05 C06 C07 C08 C18)

// checkModelEquality compares every published message of the listed protocols
// with the wire model's expectation for its datagram.
func checkModelEquality(prop string, p *PipePlan, obs *PipeObs, out *RunOut, protos map[string]bool, validityOnly bool) {
	idx := indexPublished(obs)
	recv := receivedCount(obs)
	seen := map[string]bool{}
	// a network duplicate may arrive before its original: the earliest arrival
	// of either bounds the collection time from below
	firstAt := map[string]time.Duration{}
	for i := range p.Dels {
		d := &p.Dels[i]
		if recv[d.ID] == 0 {
			continue
		}
		k := fmt.Sprintf("%s/%d", d.Proto, seqOfDelivery(d))
		if at, ok := obs.DeliveredAt[d.ID]; ok {
			if cur, have := firstAt[k]; !have || at < cur {
				firstAt[k] = at
			}
		}
	}
	for i := range p.Dels {
		d := &p.Dels[i]
		if !protos[d.Proto] || d.hostile || d.ambiguous || d.DupOf > 0 || recv[d.ID] == 0 {
			continue
		}
		k := fmt.Sprintf("%s/%d", d.Proto, seqOfDelivery(d))
		if seen[k] {
			continue
		}
		seen[k] = true
		pubs := idx[k]
		if d.wantPub == 1 && len(pubs) == 0 {
			// missing message: accounting concern (C13) unless the model expected records
			out.Violations = append(out.Violations, Violation{Prop: prop, Class: "missing-message", Key: d.Proto + " " + d.class,
				Msg: fmt.Sprintf("delivery %d (%s seq %d, %d records expected) produced no published message; log tail: %s\ndatagram: %x", d.ID, d.Proto, seqOfDelivery(d), expRecords(d), tail(obs.Log, 300), trunc(d.payload, 600))})
			continue
		}
		if d.wantPub == 0 && len(pubs) > 0 && d.class == "bad-header" {
			out.Violations = append(out.Violations, Violation{Prop: prop, Class: "unexpected-message", Key: d.Proto + " " + d.class,
				Msg: fmt.Sprintf("delivery %d (%s, %s) must yield nothing, but a message was published: %s", d.ID, d.Proto, d.class, tail(string(obs.Published[pubs[0]].Payload), 300))})
			continue
		}
		for _, pi := range pubs {
			pub := &obs.Published[pi]
			var diffs []string
			switch {
			case d.expFlow != nil:
				diffs = model.CompareFlowJSON(d.expFlow, pub.Payload)
			case d.expV5 != nil:
				if d.expV5.Flows == nil {
					diffs = []string{"message published for a packet that must yield no flows"}
				} else {
					diffs = model.CompareV5JSON(d.expV5, pub.Payload)
				}
			case d.expSF != nil:
				lo := simEpoch + int64(firstAt[k].Seconds())
				hi := simEpoch + int64(pub.At.Seconds())
				if pub.At == 0 {
					hi = simEpoch + int64(obs.SimTime.Seconds())
				}
				diffs = model.CompareSFJSON(d.expSF, pub.Payload, lo, hi)
			}
			if len(diffs) == 0 {
				continue
			}
			class := "decode-mismatch"
			if strings.HasPrefix(diffs[0], "invalid JSON") {
				class = "json-invalid"
			} else if validityOnly {
				continue
			}
			out.Violations = append(out.Violations, Violation{Prop: prop, Class: class, Key: d.Proto + ": " + diffKey(diffs[0]),
				Msg: fmt.Sprintf("delivery %d (%s seq %d): %s\npublished: %s", d.ID, d.Proto, seqOfDelivery(d), strings.Join(diffs, "; "), tail(string(pub.Payload), 600))})
		}
	}
}

func expRecords(d *Delivery) int {
	switch {
	case d.expFlow != nil:
		return len(d.expFlow.Records)
	case d.expV5 != nil:
		return len(d.expV5.Flows)
	case d.expSF != nil:
		return len(d.expSF.Samples) + len(d.expSF.Counters)
	}
	return 0
}

// diffKey reduces a difference to its shape (for known-finding matching).
func diffKey(s string) string {
	s = regexp.MustCompile(`V=.*want `).ReplaceAllString(s, "V=.. want ")
	s = regexp.MustCompile(`\(id \d+/\d+\)`).ReplaceAllString(s, "")
	s = regexp.MustCompile(`record \d+ field \d+`).ReplaceAllString(s, "record field")
	s = regexp.MustCompile(`\(-?[0-9a-fx.e+]+\)`).ReplaceAllString(s, "(..)")
	return normKey(s)
}

// simEpoch is the Unix time at which every bubble's clock starts
// (2000-01-01T00:00:00Z).
const simEpoch = 946684800

// ---------------------------------------------------------------- JSON validity (C05)

func checkJSONValid(prop string, obs *PipeObs, out *RunOut) {
	for i := range obs.Published {
		pub := &obs.Published[i]
		if _, err := model.ParseJSONStrict(pub.Payload); err != nil {
			out.Violations = append(out.Violations, Violation{Prop: prop, Class: "json-invalid", Key: pub.Proto + ": " + normKey(err.Error()),
				Msg: fmt.Sprintf("published %s message is not one valid JSON document: %v\n%s", pub.Proto, err, tail(string(pub.Payload), 600))})
			return
		}
	}
}

// ---------------------------------------------------------------- accounting (C13)

func checkAccounting(prop string, p *PipePlan, obs *PipeObs, out *RunOut) {
	c := &p.Cfg
	// counters at every snapshot
	lastUDP := map[string]uint64{}
	lastDec := map[string]uint64{}
	byID := map[int]*Delivery{}
	for i := range p.Dels {
		byID[p.Dels[i].ID] = &p.Dels[i]
	}
	for _, snap := range obs.Snaps {
		if snap.Err != "" {
			out.Violations = append(out.Violations, Violation{Prop: prop, Class: "stats-unavailable", Key: snap.Err, Msg: snap.Err})
			return
		}
		for _, pr := range allProtos {
			if !c.Enabled[pr] {
				continue
			}
			st := snap.Stats.get(pr)
			if st == nil {
				out.Violations = append(out.Violations, Violation{Prop: prop, Class: "stats-unavailable", Key: pr, Msg: "no stats for " + pr})
				continue
			}
			recv := 0
			lo, hi := 0, 0
			for _, r := range obs.Recv {
				if r.Port != c.port(pr) || r.Seq > snap.Seq {
					continue
				}
				recv++
				d := byID[r.ID]
				if d == nil {
					continue
				}
				switch d.wantDec {
				case 1:
					lo++
					hi++
				case -1:
					hi++
				}
			}
			if st.UDPCount != uint64(recv) {
				out.Violations = append(out.Violations, Violation{Prop: prop, Class: "udp-count", Key: pr,
					Msg: fmt.Sprintf("%s: UDPCount=%d after %d datagrams were read from the socket (phase %d)", pr, st.UDPCount, recv, snap.Phase)})
			}
			if st.DecodedCount < uint64(lo) || st.DecodedCount > uint64(hi) {
				out.Violations = append(out.Violations, Violation{Prop: prop, Class: "decoded-count", Key: pr,
					Msg: fmt.Sprintf("%s: DecodedCount=%d, expected between %d and %d (phase %d, %d received)", pr, st.DecodedCount, lo, hi, snap.Phase, recv)})
			}
			if st.UDPCount < lastUDP[pr] || st.DecodedCount < lastDec[pr] {
				out.Violations = append(out.Violations, Violation{Prop: prop, Class: "counter-not-monotone", Key: pr, Msg: pr + ": a counter went backwards"})
			}
			lastUDP[pr], lastDec[pr] = st.UDPCount, st.DecodedCount
			if st.UDPQueue != 0 || st.MessageQueue != 0 {
				out.Violations = append(out.Violations, Violation{Prop: prop, Class: "queue-not-drained", Key: pr,
					Msg: fmt.Sprintf("%s: queues report %d/%d at a quiescent point", pr, st.UDPQueue, st.MessageQueue)})
			}
		}
	}
	// readings taken while traffic was in flight: monotone among themselves and
	// with the quiescent readings around them (by scheduler sequence number)
	{
		type rd struct {
			seq uint64
			st  *FlowStats
			mid bool
		}
		var all []rd
		for _, sn := range obs.Snaps {
			if sn.Err == "" {
				all = append(all, rd{sn.Seq, sn.Stats, false})
			}
		}
		for _, sn := range obs.MidSnaps {
			if sn.Err == "" && sn.Stats != nil {
				all = append(all, rd{sn.Seq, sn.Stats, true})
				out.Probes["stats-readings-in-flight"]++
			}
		}
		sort.SliceStable(all, func(a, b int) bool { return all[a].seq < all[b].seq })
		for _, pr := range allProtos {
			if !c.Enabled[pr] {
				continue
			}
			var pu, pd uint64
			for _, x := range all {
				st := x.st.get(pr)
				if st == nil {
					continue
				}
				if st.UDPCount < pu || st.DecodedCount < pd {
					out.Violations = append(out.Violations, Violation{Prop: prop, Class: "counter-not-monotone", Key: pr,
						Msg: fmt.Sprintf("%s: the stats API reported UDPCount/DecodedCount %d/%d after it had reported %d/%d (reading in flight: %v)", pr, st.UDPCount, st.DecodedCount, pu, pd, x.mid)})
					break
				}
				pu, pd = st.UDPCount, st.DecodedCount
			}
		}
	}
	// published multiset
	idx := indexPublished(obs)
	recv := receivedCount(obs)
	want := map[string]int{} // exact expectations
	open := map[string]int{} // upper bounds for hostile / ambiguous
	for i := range p.Dels {
		d := &p.Dels[i]
		if recv[d.ID] == 0 {
			continue
		}
		k := fmt.Sprintf("%s/%d", d.Proto, seqOfDelivery(d))
		switch d.wantPub {
		case 1:
			want[k] += recv[d.ID]
		case 0:
			want[k] += 0
		default:
			open[k] += recv[d.ID]
		}
	}
	exactCap := p.Cfg.CapMQ > len(p.Dels)
	for k, pubs := range idx {
		w, hasW := want[k]
		o := open[k]
		if !hasW && o == 0 {
			out.Violations = append(out.Violations, Violation{Prop: prop, Class: "unexpected-message", Key: strings.SplitN(k, "/", 2)[0],
				Msg: fmt.Sprintf("a message with key %s was published but no such datagram was received: %s", k, tail(string(obs.Published[pubs[0]].Payload), 300))})
			continue
		}
		if len(pubs) > w+o {
			out.Violations = append(out.Violations, Violation{Prop: prop, Class: "duplicate-message", Key: strings.SplitN(k, "/", 2)[0],
				Msg: fmt.Sprintf("%d messages published for key %s, at most %d expected", len(pubs), k, w+o)})
		}
	}
	if exactCap {
		for k, w := range want {
			if len(idx[k]) < w {
				out.Violations = append(out.Violations, Violation{Prop: prop, Class: "missing-message", Key: strings.SplitN(k, "/", 2)[0],
					Msg: fmt.Sprintf("%d messages published for key %s, %d expected; log tail: %s", len(idx[k]), k, w, tail(obs.Log, 300))})
			}
		}
	}
}

// ---------------------------------------------------------------- isolation (C12)

type refCaches struct {
	ipfix map[string]ipfix.MemCache
	nf9   map[string]netflow9.MemCache
}

// refDecode decodes one datagram on its own with the real decoder and a
// private cache holding the templates its exporter announced in earlier
// phases, and returns the JSON the real encoder produces.
func refDecode(p *PipePlan, d *Delivery, rc *refCaches) ([]byte, error) {
	ex := &p.Exporters[d.Exporter]
	ip := net.IP(append([]byte(nil), ex.Addr...))
	body := append([]byte(nil), d.payload...)
	key := fmt.Sprintf("%d/%d", d.Exporter, d.Phase)
	switch d.Proto {
	case pIPFIX:
		cache, ok := rc.ipfix[key]
		if !ok {
			cache = ipfix.GetCache("")
			for i := range p.Dels {
				t := &p.Dels[i]
				if t.Exporter == d.Exporter && t.Phase < d.Phase && t.Proto == pIPFIX && t.DupOf == 0 {
					ipfix.NewDecoder(ip, append([]byte(nil), t.payload...)).Decode(cache)
				}
			}
			rc.ipfix[key] = cache
		}
		m, err := ipfix.NewDecoder(ip, body).Decode(cache)
		if m == nil {
			return nil, err
		}
		if len(m.DataSets) == 0 {
			return nil, nil
		}
		return m.JSONMarshal(new(bytes.Buffer))
	case pNF9:
		cache, ok := rc.nf9[key]
		if !ok {
			cache = netflow9.GetCache("")
			for i := range p.Dels {
				t := &p.Dels[i]
				if t.Exporter == d.Exporter && t.Phase < d.Phase && t.Proto == pNF9 && t.DupOf == 0 {
					netflow9.NewDecoder(ip, append([]byte(nil), t.payload...)).Decode(cache)
				}
			}
			rc.nf9[key] = cache
		}
		m, err := netflow9.NewDecoder(ip, body).Decode(cache)
		if m == nil {
			return nil, err
		}
		if m.DataSets == nil {
			return nil, nil
		}
		return m.JSONMarshal(new(bytes.Buffer))
	case pNF5:
		m, err := netflow5.NewDecoder(ip, body).Decode()
		if m == nil {
			return nil, err
		}
		if m.Flows == nil {
			return nil, nil
		}
		return m.JSONMarshal(new(bytes.Buffer))
	case pSFlow:
		dec := sflow.NewSFDecoder(bytes.NewReader(body), p.Cfg.SFlowFilter)
		dg, err := dec.SFDecode()
		if err != nil || (len(dg.Counters) < 1 && len(dg.Samples) < 1) {
			return nil, err
		}
		return json.Marshal(dg)
	}
	return nil, nil
}

func checkIsolation(prop string, p *PipePlan, obs *PipeObs, out *RunOut) {
	idx := indexPublished(obs)
	recv := receivedCount(obs)
	rc := &refCaches{ipfix: map[string]ipfix.MemCache{}, nf9: map[string]netflow9.MemCache{}}
	seen := map[string]bool{}
	for i := range p.Dels {
		d := &p.Dels[i]
		if d.hostile || d.ambiguous || d.DupOf > 0 || recv[d.ID] == 0 {
			continue
		}
		k := fmt.Sprintf("%s/%d", d.Proto, seqOfDelivery(d))
		if seen[k] {
			continue
		}
		seen[k] = true
		pubs := idx[k]
		if len(pubs) == 0 {
			continue
		}
		// copies of this datagram that were received (duplicates share the key)
		copies := 0
		for j := range p.Dels {
			if o := &p.Dels[j]; o.Proto == d.Proto && seqOfDelivery(o) == seqOfDelivery(d) {
				copies += recv[o.ID]
			}
		}
		if len(pubs) > copies {
			out.Violations = append(out.Violations, Violation{Prop: prop, Class: "isolation", Key: d.Proto + ": more messages carry a datagram's content than copies of it were received",
				Msg: fmt.Sprintf("delivery %d (%s seq %d) was received %d time(s) but %d published messages carry its content: the message published for another datagram was built from this datagram's octets", d.ID, d.Proto, seqOfDelivery(d), copies, len(pubs))})
			return
		}
		ref, err := refDecode(p, d, rc)
		if ref == nil {
			out.Violations = append(out.Violations, Violation{Prop: prop, Class: "isolation", Key: d.Proto + ": published but isolated decode yields nothing",
				Msg: fmt.Sprintf("delivery %d (%s): the pipeline published a message, decoding the datagram alone yields none (err=%v)", d.ID, d.Proto, err)})
			continue
		}
		for _, pi := range pubs {
			got := obs.Published[pi].Payload
			a, b := got, ref
			if d.Proto == pSFlow {
				a = reColTime.ReplaceAll(a, []byte(`"ColTime":0`))
				b = reColTime.ReplaceAll(b, []byte(`"ColTime":0`))
			}
			if !bytes.Equal(a, b) {
				poison := bytes.Contains(got, bytes.Repeat([]byte{0xa5}, 3)) || bytes.Contains(got, []byte("a5a5a5")) || bytes.Contains(got, []byte("165.165.165"))
				out.Violations = append(out.Violations, Violation{Prop: prop, Class: "isolation", Key: d.Proto + ": published bytes differ from isolated decode",
					Msg: fmt.Sprintf("delivery %d (%s seq %d): published message differs from decoding the datagram on its own (poison seen: %v)\n got: %s\nwant: %s",
						d.ID, d.Proto, seqOfDelivery(d), poison, tail(string(got), 500), tail(string(ref), 500))})
				return
			}
		}
	}
}

// ---------------------------------------------------------------- mirror (C16)

func to4(b []byte) []byte {
	if len(b) == 4 {
		return b
	}
	if len(b) == 16 {
		for i := 0; i < 10; i++ {
			if b[i] != 0 {
				return nil
			}
		}
		if b[10] == 0xff && b[11] == 0xff {
			return b[12:]
		}
	}
	return nil
}

// checkMirror: every received IPFIX / sFlow datagram is re-emitted once as an
// IPv4/UDP packet from the exporter's address to the configured target with
// consistent length fields and a byte-identical payload.
func checkMirror(prop string, p *PipePlan, obs *PipeObs, out *RunOut) {
	if obs.PanicVal != "" || obs.Exited {
		return
	}
	c := &p.Cfg
	type key struct {
		proto   string
		src     string
		payload string
	}
	want := map[key]int{}
	order := []key{}
	recv := receivedCount(obs)
	for i := range p.Dels {
		d := &p.Dels[i]
		if recv[d.ID] == 0 {
			continue
		}
		tgt := ""
		switch d.Proto {
		case pIPFIX:
			tgt = c.MirrorIPFIX
		case pSFlow:
			tgt = c.MirrorSFlow
		}
		if tgt == "" {
			continue
		}
		src := to4(p.Exporters[d.Exporter].Addr)
		if src == nil {
			continue // IPv6 exporters are outside the statement
		}
		pl := d.payload
		if len(pl) > c.udpSize(d.Proto) {
			pl = pl[:c.udpSize(d.Proto)]
		}
		k := key{d.Proto, string(src), string(pl)}
		if want[k] == 0 {
			order = append(order, k)
		}
		want[k] += recv[d.ID]
	}
	got := map[key]int{}
	for i := range obs.Raw {
		pk := &obs.Raw[i]
		b := pk.Data
		bad := func(f string, a ...interface{}) {
			out.Violations = append(out.Violations, Violation{Prop: prop, Class: "mirror-packet", Key: normKey(fmt.Sprintf(f, a...)),
				Msg: fmt.Sprintf("mirrored packet %d: %s\nfirst octets: %x", i, fmt.Sprintf(f, a...), trunc(b, 48))})
		}
		if len(b) < 28 {
			bad("shorter than IPv4+UDP headers (%d octets)", len(b))
			continue
		}
		proto := pIPFIX
		port := c.MirrorPort
		tgt := c.MirrorIPFIX
		dport := int(b[22])<<8 | int(b[23])
		if c.MirrorSFlow != "" && (c.MirrorIPFIX == "" || dport == c.MirrorPort+1) {
			proto, port, tgt = pSFlow, c.MirrorPort+1, c.MirrorSFlow
		}
		dst := net.ParseIP(tgt).To4()
		if b[0] != 0x45 {
			bad("IP version/IHL octet is %#x, want 0x45", b[0])
		}
		if tl := int(b[2])<<8 | int(b[3]); tl != len(b) {
			bad("IP total length %d but %d octets were sent", tl, len(b))
		}
		if b[9] != 17 {
			bad("IP protocol %d, want 17", b[9])
		}
		if !bytes.Equal(b[16:20], dst) {
			bad("IP destination %v, want %v", net.IP(b[16:20]), dst)
		}
		if !bytes.Equal(pk.To, dst) {
			bad("packet handed to the kernel for %v, want %v", net.IP(pk.To), dst)
		}
		if dport != port {
			bad("UDP destination port %d, want %d", dport, port)
		}
		if ul := int(b[24])<<8 | int(b[25]); ul != len(b)-20 {
			bad("UDP length %d, want %d", ul, len(b)-20)
		}
		got[key{proto, string(b[12:16]), string(b[28:])}]++
		if len(out.Violations) > 3 {
			return
		}
	}
	exact := c.CapMirror > len(p.Dels)
	for _, k := range order {
		w := want[k]
		g := got[k]
		if g > w || (exact && g < w) {
			// explain: is there a packet from that source with another payload?
			out.Violations = append(out.Violations, Violation{Prop: prop, Class: "mirror-missing", Key: k.proto,
				Msg: fmt.Sprintf("%s datagram from %v (%d octets) was received %d times but mirrored %d times with identical payload and source", k.proto, net.IP(k.src), len(k.payload), w, g)})
			return
		}
	}
	for k, g := range got {
		if want[k] == 0 {
			out.Violations = append(out.Violations, Violation{Prop: prop, Class: "mirror-unexpected", Key: k.proto,
				Msg: fmt.Sprintf("a %s packet from %v with a %d-octet payload was mirrored but no such datagram was received", k.proto, net.IP(k.src), len(k.payload))})
			_ = g
			return
		}
	}
}

// checkProbes (C01 liveness): after the hostile phases every probe datagram of
// a clean exporter must still be decoded and published - the workers are alive.
func checkProbes(prop string, p *PipePlan, obs *PipeObs, out *RunOut) {
	if obs.PanicVal != "" || obs.Exited || obs.HarnessErr != "" {
		return
	}
	idx := indexPublished(obs)
	recv := receivedCount(obs)
	for i := range p.Dels {
		d := &p.Dels[i]
		if !d.Probe || recv[d.ID] == 0 || d.wantPub != 1 {
			continue
		}
		out.Probes["liveness-probes"]++
		k := fmt.Sprintf("%s/%d", d.Proto, seqOfDelivery(d))
		if len(idx[k]) == 0 {
			out.Violations = append(out.Violations, Violation{Prop: prop, Class: "probe-lost", Key: d.Proto,
				Msg: fmt.Sprintf("after the hostile traffic a well-formed %s datagram (delivery %d) was received but never published: the pipeline no longer processes datagrams; log tail: %s", d.Proto, d.ID, tail(obs.Log, 400))})
			return
		}
	}
}
