//go:build verif

package main

import (
	"bytes"
	"encoding/json"
	"fmt"
	"net"
	"os"
	"sort"
	"syscall"
	"testing"
	"time"

	"github.com/EdgeCast/vflow/verifsim/model"
	"github.com/EdgeCast/vflow/verifsim/simrt"
)

// ExporterPlan is one simulated exporter.
type ExporterPlan struct {
	Addr     []byte `json:"addr"` // 4 or 16 octets as the socket reports it
	Port     int    `json:"port"`
	Proto    string `json:"proto"`
	SpareCap bool   `json:"spare_cap"` // address slice has spare capacity
	Domain   uint32 `json:"domain"`
	Hostile  bool   `json:"hostile,omitempty"`
}

// Mutation is a transport-level corruption applied to an encoded datagram.
type Mutation struct {
	Kind string `json:"kind"` // truncate | flip | overwrite | splice | garbage
	Off  int    `json:"off"`
	Len  int    `json:"len"`
	Val  []byte `json:"val,omitempty"`
}

// Delivery is one datagram handed to a collector socket.
type Delivery struct {
	ID       int              `json:"id"`
	Phase    int              `json:"phase"`
	AtUs     int              `json:"at_us"` // offset from the opening of the phase
	AbsUs    int64            `json:"abs_us,omitempty"` // >0: not before this absolute simulated time
	Proto    string           `json:"proto"`
	Exporter int              `json:"exporter"`
	Abs      *model.Msg       `json:"abs,omitempty"`
	V5       *model.V5Packet  `json:"v5,omitempty"`
	SF       *model.SFDatagram `json:"sf,omitempty"`
	Raw      []byte           `json:"raw,omitempty"`
	Mut      []Mutation       `json:"mut,omitempty"`
	DupOf    int              `json:"dup_of,omitempty"` // 1+ID of the delivery this one duplicates
	Early    bool             `json:"early,omitempty"` // sent as soon as the protocol's socket is bound, while the collector is still starting
	Probe    bool             `json:"probe,omitempty"`
	BadHeader bool            `json:"bad_header,omitempty"` // Raw is a datagram whose header must be rejected: nothing decoded, counted or published

	// computed by finalize (never serialised)
	payload   []byte
	expFlow   *model.ExpMsg
	expV5     *model.ExpV5
	expSF     *model.ExpSF
	ambiguous bool
	mismatchOnly bool
	hostile   bool
	wantPub   int // 0, 1, or -1 (open)
	wantDec   int // 0, 1, or -1 (open)
	class     string
	tplsBefore []int // ids of template-bearing deliveries of the same exporter in earlier phases
}

// Lifecycle describes signals and restarts (C15).
type Lifecycle struct {
	SignalPhase int  `json:"signal_phase"` // -1: none; signal is sent AtUs after this phase opens
	SignalAtUs  int  `json:"signal_at_us"`
	SigInt      bool `json:"sigint,omitempty"`
	SignalAbsUs int  `json:"signal_abs_us,omitempty"` // >0: signal at this absolute time instead (may land during boot)
}

// PipePlan is a whole-pipeline run.
type PipePlan struct {
	Cfg       NodeCfg        `json:"cfg"`
	Exporters []ExporterPlan `json:"exporters"`
	Dels      []Delivery     `json:"deliveries"`
	NPhases   int            `json:"nphases"`
	Life      Lifecycle      `json:"life"`
	Sink      []simrt.SinkFault `json:"sink_script,omitempty"`
	SinkDown0Ms int          `json:"sink_down0_ms,omitempty"`
	Profile   string         `json:"profile"`
	StatsPolls []int         `json:"stats_polls,omitempty"` // phases after which the stats API is read (all if empty)
	// MidPolls: the stats API is also read in the middle of phases (while
	// datagrams are in flight); such readings are only required to be monotone
	// and never ahead of the next quiescent reading
	MidPolls []MidPoll `json:"mid_polls,omitempty"`
}

// PhaseSnap is what the stats API said at the end of a phase.
type PhaseSnap struct {
	Phase int
	At    time.Duration
	Seq   uint64
	Stats *FlowStats
	Err   string
	Delivered map[string]int // per proto: datagrams read from the socket so far
}

// PipeObs is everything observed in one incarnation.
type PipeObs struct {
	Published  []Published
	Recv       []simrt.Received
	MidSnaps   []PhaseSnap // stats readings taken in the middle of phases
	Snaps      []PhaseSnap
	PanicTask  string
	PanicVal   string
	PanicStack string
	Exited     bool
	ExitCode   int
	ExitAt     time.Duration
	MainDone   bool
	MainDoneAt time.Duration
	SignalAt   time.Duration
	// StallAfterSignal: injected stall time (all tasks) between the signal and the end of the run
	StallAfterSignal time.Duration
	EarlyDelivered   int // datagrams delivered before the collector had finished starting
	stallAtSignal    time.Duration
	Signaled   bool
	Stop       string
	Steps      uint64
	SimTime    time.Duration
	Stats      simrt.Stats
	Choices    []simrt.Choice
	ChoiceCounts [16]uint64
	Trace      []TraceStep
	TraceHash, ProjHash uint64
	Files      map[string][]byte
	Raw        []simrt.RawPacket
	SinkConns  []*simrt.SinkConnRec
	SinkDials  []simrt.DialRec
	SinkScript []simrt.SinkFault
	Overflow   int
	NoSocket   int
	Pool       simrt.PoolCfg
	Log        string
	Writes     []simrt.WriteRec
	Booted     bool
	BootAt     time.Duration
	Bound      []string
	HTTPAddrs  []string
	DeliveredAt map[int]time.Duration // delivery id -> sim time handed to the socket
	DeliveredSeq map[int]uint64
	QuiescentAfter map[int]uint64 // phase -> seq at which the phase was found quiescent
	HarnessErr string
	MaxWorkersBusy int
}

func (d *Delivery) encode(tplOf func(id uint16) *model.Template) []byte {
	var b []byte
	switch {
	case d.Raw != nil:
		b = append([]byte(nil), d.Raw...)
	case d.Abs != nil:
		b, _ = d.Abs.Encode(tplOf)
	case d.V5 != nil:
		b = d.V5.Encode()
	case d.SF != nil:
		b = d.SF.Encode()
	}
	for _, m := range d.Mut {
		b = applyMutation(b, m)
	}
	return b
}

func applyMutation(b []byte, m Mutation) []byte {
	switch m.Kind {
	case "truncate":
		if m.Off >= 0 && m.Off < len(b) {
			return b[:m.Off]
		}
	case "flip":
		if m.Off >= 0 && m.Off < len(b) {
			b[m.Off] ^= byte(1 << uint(m.Len&7))
		}
	case "overwrite":
		for i, v := range m.Val {
			if m.Off+i >= 0 && m.Off+i < len(b) {
				b[m.Off+i] = v
			}
		}
	case "splice":
		if m.Off >= 0 && m.Off <= len(b) {
			nb := append([]byte(nil), b[:m.Off]...)
			nb = append(nb, m.Val...)
			return append(nb, b[m.Off:]...)
		}
	case "garbage":
		return append([]byte(nil), m.Val...)
	}
	return b
}

// finalizePipe computes payloads and expectations by running the models over
// the deliveries phase by phase (DESIGN.md 5.2, 5.3). Templates announced in
// phase p are in force for phases > p (and for later sets of the same
// datagram); a data set whose key is announced by another datagram of the same
// phase is ambiguous and excluded from equality oracles.
func finalizePipe(p *PipePlan) { finalizePipeFrom(p, nil) }

// finalizePipeFrom is finalizePipe with the templates in force at boot (loaded
// from the cache files); it returns the model cache at the start of every
// phase (index NPhases: after the last phase).
func finalizePipeFrom(p *PipePlan, init model.TplCache) []model.TplCache {
	im := modelIM(&p.Cfg)
	cache := model.TplCache{} // announcements of completed phases
	if init != nil {
		cache = init.Clone()
	}
	var snaps []model.TplCache
	byPhase := map[int][]int{}
	for i := range p.Dels {
		byPhase[p.Dels[i].Phase] = append(byPhase[p.Dels[i].Phase], i)
	}
	// templates every exporter has ever announced (for the encoder: a data set
	// is encoded against the template the generator built it for)
	for ph := 0; ph < p.NPhases; ph++ {
		snaps = append(snaps, cache.Clone())
		idx := byPhase[ph]
		// keys announced in this phase, by delivery
		announced := map[string][]int{}
		for _, i := range idx {
			d := &p.Dels[i]
			if d.Abs == nil || len(d.Mut) > 0 || d.Raw != nil {
				continue
			}
			ex := p.Exporters[d.Exporter]
			for _, s := range d.Abs.Sets {
				if s.Kind == model.SetTemplate || s.Kind == model.SetOptions {
					for _, t := range s.Tpls {
						k := model.CacheKey(ex.Addr, t.ID)
						announced[k] = append(announced[k], i)
					}
				}
			}
		}
		next := cache.Clone()
		for _, i := range idx {
			d := &p.Dels[i]
			ex := p.Exporters[d.Exporter]
			d.hostile = ex.Hostile || len(d.Mut) > 0 || d.Raw != nil
			d.ambiguous = false
			switch {
			case d.Abs != nil:
				local := cache.Clone()
				tplOf := func(id uint16) *model.Template {
					// own announcements earlier in the message win
					for _, s := range d.Abs.Sets {
						if s.Kind == model.SetTemplate || s.Kind == model.SetOptions {
							for ti := range s.Tpls {
								if s.Tpls[ti].ID == id {
									return &s.Tpls[ti]
								}
							}
						}
					}
					return local[model.CacheKey(ex.Addr, id)]
				}
				// the encoder resolves a data set against the template in force
				// at that point of the message: walk sets in order
				d.payload = encodeFlowInOrder(d, ex.Addr, local)
				_ = tplOf
				if len(d.payload) > p.Cfg.udpSize(d.Proto) {
					// larger than the receive buffer: the collector sees a cut
					// datagram, for which there is no exact expectation
					d.hostile = true
				}
				if d.hostile {
					d.wantPub, d.wantDec = -1, -1
					d.class = "hostile"
					break
				}
				exp := model.Expect(d.Abs, ex.Addr, cache.Clone(), im, len(d.payload))
				d.expFlow = exp
				for _, s := range d.Abs.Sets {
					if s.Kind == model.SetData || (s.Kind == model.SetRaw && s.RawID > 255) {
						id := s.TplID
						if s.Kind == model.SetRaw {
							id = s.RawID
						}
						k := model.CacheKey(ex.Addr, id)
						for _, j := range announced[k] {
							if j != i {
								d.ambiguous = true
							}
						}
					}
					if s.Kind == model.SetTemplate || s.Kind == model.SetOptions {
						for ti := range s.Tpls {
							t := s.Tpls[ti]
							k := model.CacheKey(ex.Addr, t.ID)
							if len(announced[k]) > 1 {
								// several announcements of one key in one phase: order unknown
								next[k] = nil
							} else {
								next[k] = &t
							}
						}
					}
				}
				d.wantDec = 1
				if exp.UnknownSets > 0 {
					d.wantDec = -1
				}
				if exp.Mismatched > 0 {
					if !d.ambiguous {
						d.mismatchOnly = true
					}
					d.ambiguous = true
				}
				if len(exp.Records) > 0 {
					d.wantPub = 1
					d.class = "data"
				} else {
					d.wantPub = 0
					d.class = "no-records"
				}
				if d.ambiguous {
					// decoded under whichever definition was in force: it may yield
					// other records, none, or fail altogether
					d.wantPub, d.wantDec = -1, -1
				}
			case d.V5 != nil:
				d.payload = d.encode(nil)
				if d.hostile {
					d.wantPub, d.wantDec = -1, -1
					d.class = "hostile"
					break
				}
				d.expV5 = model.ExpectV5(d.V5, ex.Addr)
				if d.expV5.Flows != nil {
					d.wantPub, d.wantDec, d.class = 1, 1, "data"
				} else {
					d.wantPub, d.wantDec, d.class = 0, 0, "rejected"
				}
			case d.SF != nil:
				d.payload = d.encode(nil)
				if d.hostile {
					d.wantPub, d.wantDec = -1, -1
					d.class = "hostile"
					break
				}
				d.expSF = model.ExpectSF(d.SF, p.Cfg.SFlowFilter)
				if d.expSF != nil && (len(d.expSF.Samples) > 0 || len(d.expSF.Counters) > 0) {
					d.wantPub, d.wantDec, d.class = 1, 1, "data"
				} else {
					d.wantPub, d.wantDec, d.class = 0, -1, "no-samples"
				}
			default:
				d.payload = d.encode(nil)
				if d.BadHeader && !ex.Hostile && len(d.Mut) == 0 {
					d.hostile = false
					d.wantPub, d.wantDec = 0, 0
					d.class = "bad-header"
					break
				}
				d.hostile = true
				d.wantPub, d.wantDec = -1, -1
				d.class = "hostile"
			}
		}
		// delete ambiguous keys
		for k, v := range next {
			if v == nil {
				delete(next, k)
			}
		}
		cache = next
	}
	// duplicates share the payload of their original
	for i := range p.Dels {
		d := &p.Dels[i]
		if d.DupOf > 0 && d.DupOf-1 < len(p.Dels) {
			o := &p.Dels[d.DupOf-1]
			d.payload = o.payload
		}
	}
	snaps = append(snaps, cache.Clone())
	return snaps
}

// encodeFlowInOrder encodes a flow message resolving each data set against
// the template in force at that point (cache + the message's own earlier
// announcements), then applies mutations.
func encodeFlowInOrder(d *Delivery, addr []byte, cache model.TplCache) []byte {
	// Msg.Encode resolves a data set against the templates announced earlier
	// in the same message, in order; what it does not find there comes from
	// the cache of completed phases
	b, _ := d.Abs.Encode(func(id uint16) *model.Template {
		return cache[model.CacheKey(addr, id)]
	})
	for _, m := range d.Mut {
		b = applyMutation(b, m)
	}
	return b
}

// MidPoll is one reading of the stats API AtUs after the opening of Phase.
type MidPoll struct {
	Phase int `json:"phase"`
	AtUs  int `json:"at_us"`
}

// droppable: losing this delivery at the socket changes nothing the model
// relies on later (clean, data only).
func droppable(p *PipePlan, d *Delivery) bool {
	if d.Probe || d.BadHeader || d.Raw != nil || len(d.Mut) > 0 || p.Exporters[d.Exporter].Hostile {
		return false
	}
	if d.Abs != nil {
		for _, s := range d.Abs.Sets {
			if s.Kind != model.SetData && s.Kind != model.SetRaw {
				return false
			}
		}
	}
	return true
}

func srcAddr(ex *ExporterPlan) *net.UDPAddr {
	ip := make(net.IP, len(ex.Addr), len(ex.Addr)+map[bool]int{false: 0, true: 8}[ex.SpareCap])
	copy(ip, ex.Addr)
	return &net.UDPAddr{IP: ip, Port: ex.Port}
}

// runPipe executes one incarnation inside the current bubble.
func runPipe(p *PipePlan, ch *simrt.Choices, trace bool, adopt map[string][]byte) *PipeObs {
	obs := &PipeObs{Files: map[string][]byte{}, DeliveredAt: map[int]time.Duration{}, DeliveredSeq: map[int]uint64{}, QuiescentAfter: map[int]uint64{}}
	sim := simrt.New(ch)
	defer sim.Close()
	simrt.SetFuel(20000000)
	defer simrt.SetFuel(0)
	c := &p.Cfg
	sim.TraceOn = trace
	sim.StallProb = c.StallProb
	sim.StallFilter = c.StallFilter
	sim.Raw.SendDelay = time.Duration(c.RawSendDelayUs) * time.Microsecond
	if c.StallMaxMs > 0 {
		sim.StallMax = time.Duration(c.StallMaxMs) * time.Millisecond
	}
	ch.KeepBias = c.KeepBias
	simrt.PoolConf = simrt.PoolCfg{Policy: c.PoolPolicy, Poison: c.Poison}
	if c.SockQueue > 0 {
		sim.Net.QueueCap = c.SockQueue
	}
	sim.FS.Chunk = c.DiskChunk
	sim.FS.ReadDelay = time.Duration(c.DiskReadMs) * time.Millisecond
	for k, v := range adopt {
		sim.FS.Put(k, v)
	}
	installFiles(sim, c)
	sim.Sink.Script = append([]simrt.SinkFault(nil), p.Sink...)
	sim.Sink.DownFrom0 = time.Duration(p.SinkDown0Ms) * time.Millisecond
	resetGlobals(c)
	sim.Boot.Args = bootArgs(c)
	sim.Boot.Env = c.Env
	if c.TmpOtherFS {
		sim.Boot.Env = map[string]string{"TMPDIR": "/var/tmp"}
		for k, v := range c.Env {
			sim.Boot.Env[k] = v
		}
	}

	sim.GoNamed("main", false, func() {
		main()
		sim.MainDone = true
		sim.MainDoneAt = sim.Now()
	})

	// taps on the message-queue channels
	if c.Producer == "tap" || c.Producer == "" {
		for _, pr := range allProtos {
			pr := pr
			if !c.Enabled[pr] {
				continue
			}
			mq := mqChan(pr)
			sim.GoNamed("tap-"+pr, true, func() {
				for {
					simrt.Yield(-20)
					if c.TapDelayUs > 0 {
						// a slow consumer: a backlog builds up in the outgoing queue
						simrt.Sleep(time.Duration(c.TapDelayUs) * time.Microsecond)
					}
					m, ok := <-mq
					simrt.Yield(-20)
					if !ok {
						return
					}
					obs.Published = append(obs.Published, Published{Proto: pr, Payload: m, Seq: sim.Seq, At: sim.Now()})
				}
			})
		}
	}

	// phase gates
	gates := make([]chan struct{}, p.NPhases+1)
	opened := make([]time.Duration, p.NPhases+1)
	for i := range gates {
		gates[i] = make(chan struct{})
	}
	perPhase := make([]int, p.NPhases+1)
	donePhase := make([]int, p.NPhases+1)
	for i := range p.Dels {
		if p.Cfg.Enabled[p.Dels[i].Proto] {
			perPhase[p.Dels[i].Phase]++
		}
	}
	// one network task per protocol walks its deliveries in plan order
	for _, pr := range allProtos {
		pr := pr
		if !c.Enabled[pr] {
			continue
		}
		var mine []int
		for i := range p.Dels {
			if p.Dels[i].Proto == pr {
				mine = append(mine, i)
			}
		}
		if len(mine) == 0 {
			continue
		}
		sort.SliceStable(mine, func(a, b int) bool {
			da, db := &p.Dels[mine[a]], &p.Dels[mine[b]]
			if da.Phase != db.Phase {
				return da.Phase < db.Phase
			}
			if da.AbsUs != db.AbsUs {
				return da.AbsUs < db.AbsUs
			}
			return da.AtUs < db.AtUs
		})
		port := c.port(pr)
		sim.GoNamed("net-"+pr, true, func() {
			for _, i := range mine {
				d := &p.Dels[i]
				simrt.Yield(-21)
				if d.Early && d.Phase == 0 {
					// traffic that is already flowing while the collector starts: the
					// datagram is sent the moment its port is bound
					for tries := 0; sim.Net.Sock(port) == nil && tries < 100000 && !sim.Exited; tries++ {
						simrt.Sleep(50 * time.Microsecond)
					}
					if sim.Net.Sock(port) != nil && !obs.Booted {
						obs.EarlyDelivered++
					}
				} else {
					<-gates[d.Phase]
					simrt.Yield(-21)
					wait := opened[d.Phase] + time.Duration(d.AtUs)*time.Microsecond - sim.Now()
					if d.AbsUs > 0 {
						wait = time.Duration(d.AbsUs)*time.Microsecond - sim.Now()
					}
					if wait > 0 {
						simrt.Sleep(wait)
					}
				}
				ex := &p.Exporters[d.Exporter]
				ok := sim.Net.Deliver(port, simrt.Dgram{ID: d.ID, Src: srcAddr(ex), Data: d.payload})
				if !ok && !droppable(p, d) {
					// the receive queue is full: a datagram that carries state the
					// model relies on (templates), a probe or a datagram with an
					// exact expectation of its own is sent again until it fits -
					// plain data datagrams are simply lost (not received)
					limit := 5000
					if d.Early {
						limit = 400000 // the read loop starts when the collector has finished starting (slow disk)
					}
					for tries := 0; !ok && tries < limit && sim.Net.Sock(port) != nil; tries++ {
						simrt.Sleep(100 * time.Microsecond)
						ok = sim.Net.Deliver(port, simrt.Dgram{ID: d.ID, Src: srcAddr(ex), Data: d.payload})
					}
				}
				obs.DeliveredAt[d.ID] = sim.Now()
				obs.DeliveredSeq[d.ID] = sim.Seq
				_ = ok
				donePhase[d.Phase]++
				simrt.Yield(-21)
			}
		})
	}
	// stats readings while traffic is in flight
	if len(p.MidPolls) > 0 {
		polls := append([]MidPoll(nil), p.MidPolls...)
		sort.SliceStable(polls, func(a, b int) bool {
			if polls[a].Phase != polls[b].Phase {
				return polls[a].Phase < polls[b].Phase
			}
			return polls[a].AtUs < polls[b].AtUs
		})
		sim.GoNamed("stats-poller", true, func() {
			for _, mp := range polls {
				if mp.Phase < 0 || mp.Phase >= len(gates) {
					continue
				}
				simrt.Yield(-23)
				<-gates[mp.Phase]
				simrt.Yield(-23)
				if wait := opened[mp.Phase] + time.Duration(mp.AtUs)*time.Microsecond - sim.Now(); wait > 0 {
					simrt.Sleep(wait)
				}
				if sim.Exited || sim.MainDone || obs.Signaled {
					return
				}
				st, e := fetchStats(sim)
				obs.MidSnaps = append(obs.MidSnaps, PhaseSnap{Phase: mp.Phase, At: sim.Now(), Seq: sim.Seq, Stats: st, Err: e})
				simrt.Yield(-23)
			}
		})
	}
	// signal source
	if (p.Life.SignalPhase >= 0 && p.Life.SignalPhase <= p.NPhases) || p.Life.SignalAbsUs > 0 {
		sim.GoNamed("signal", true, func() {
			if p.Life.SignalAbsUs > 0 {
				simrt.Sleep(time.Duration(p.Life.SignalAbsUs) * time.Microsecond)
				// a signal sent before the process has installed its handler
				// would kill it by default action: wait for the handler
				for !sim.HasSignalHandler() {
					simrt.Sleep(50 * time.Microsecond)
				}
			} else {
				simrt.Yield(-22)
				<-gates[p.Life.SignalPhase]
				simrt.Yield(-22)
				simrt.Sleep(time.Duration(p.Life.SignalAtUs) * time.Microsecond)
			}
			var sg os.Signal = syscall.SIGTERM
			if p.Life.SigInt {
				sg = syscall.SIGINT
			}
			obs.SignalAt = sim.Now()
			obs.stallAtSignal = sim.StallTotal
			obs.Signaled = true
			sim.Signal(sg)
			simrt.Yield(-22)
		})
	}

	phase := -1 // last opened phase
	quiescent := func() bool {
		if sim.Stalling() > 0 {
			return false
		}
		for _, pr := range allProtos {
			if !c.Enabled[pr] {
				continue
			}
			if sim.Net.Queued(c.port(pr)) > 0 || udpChanLen(pr) > 0 || len(mqChan(pr)) > 0 {
				return false
			}
		}
		return mirrorChanLen() == 0
	}
	booted := func() bool {
		if sim.Stalling() > 0 {
			return false // a task is still inside an injected stall: it may be in the middle of its set-up
		}
		for _, pr := range allProtos {
			if c.Enabled[pr] && sim.Net.Sock(c.port(pr)) == nil {
				return false
			}
		}
		return len(sim.HTTP) > 0
	}
	wantSnap := func(ph int) bool {
		if len(p.StatsPolls) == 0 {
			return true
		}
		for _, x := range p.StatsPolls {
			if x == ph {
				return true
			}
		}
		return false
	}
	endAt := time.Duration(0)
	sim.OnIdle = func() bool {
		if sim.Exited || sim.MainDone {
			return true
		}
		if !obs.Booted && !obs.Signaled {
			if !booted() {
				if sim.Now() > 30*time.Second {
					obs.HarnessErr = "collector did not finish booting"
					return true
				}
				return false
			}
			obs.Booted = true
			obs.BootAt = sim.Now()
			sim.BootDone = true
		}
		if obs.Signaled {
			// waiting for the process to end on its own
			if sim.Now()-obs.SignalAt > 30*time.Second {
				return true
			}
			return false
		}
		if !quiescent() {
			if endAt == 0 {
				endAt = sim.Now() + 10*time.Minute
			}
			if sim.Now() > endAt {
				obs.HarnessErr = "no quiescence within 10 simulated minutes"
				return true
			}
			return false
		}
		endAt = 0
		if phase > p.NPhases {
			// everything delivered and quiescent; only a pending signal keeps the run going
			return !((p.Life.SignalPhase >= 0 || p.Life.SignalAbsUs > 0) && !obs.Signaled)
		}
		if phase >= 0 && donePhase[phase] < perPhase[phase] {
			return false // network task still has deliveries to make
		}
		if phase >= 0 {
			obs.QuiescentAfter[phase] = sim.Seq
			if wantSnap(phase) {
				st, e := fetchStats(sim)
				snap := PhaseSnap{Phase: phase, At: sim.Now(), Seq: sim.Seq, Stats: st, Err: e, Delivered: map[string]int{}}
				for _, r := range sim.Net.Recv {
					for _, pr := range allProtos {
						if c.port(pr) == r.Port {
							snap.Delivered[pr]++
						}
					}
				}
				obs.Snaps = append(obs.Snaps, snap)
			}
		}
		phase++
		if phase <= p.NPhases {
			opened[phase] = sim.Now()
			close(gates[phase])
			if phase < p.NPhases || p.Life.SignalPhase == p.NPhases {
				return false
			}
		}
		// all phases done; if a signal is pending wait for it
		if (p.Life.SignalPhase >= 0 || p.Life.SignalAbsUs > 0) && !obs.Signaled {
			return false
		}
		return true
	}
	obs.Stop = sim.Run()
	obs.Steps = sim.Seq
	obs.SimTime = sim.Now()
	obs.Stats = sim.Stats
	obs.Exited, obs.ExitCode, obs.ExitAt = sim.Exited, sim.ExitCode, sim.ExitAt
	if obs.Signaled {
		obs.StallAfterSignal = sim.StallTotal - obs.stallAtSignal
	}
	obs.MainDone, obs.MainDoneAt = sim.MainDone, sim.MainDoneAt
	if t := sim.Panicked; t != nil {
		obs.PanicTask = t.Name
		obs.PanicVal = fmt.Sprint(t.Panic)
		obs.PanicStack = t.Stack
	}
	obs.Recv = append([]simrt.Received(nil), sim.Net.Recv...)
	obs.Overflow, obs.NoSocket = sim.Net.Overflow, sim.Net.NoSocket
	obs.Bound = sim.Net.BoundAddrs()
	for _, h := range sim.HTTP {
		obs.HTTPAddrs = append(obs.HTTPAddrs, h.Addr)
	}
	obs.Raw = sim.Raw.Packets
	obs.SinkConns = sim.Sink.Conns
	obs.SinkDials = sim.Sink.Dials
	obs.SinkScript = sim.Sink.Script
	obs.Writes = sim.FS.Writes
	for _, path := range sim.FS.Paths() {
		b, _ := sim.FS.Get(path)
		obs.Files[path] = b
	}
	obs.Pool = simrt.PoolConf
	obs.Log = sim.Log.String()
	obs.Choices = ch.Rec
	obs.ChoiceCounts = ch.Counts
	obs.TraceHash, obs.ProjHash = sim.TraceHash, sim.ProjHash
	if trace {
		obs.Trace = traceOf(sim)
	}
	// messages that reached a simulated sink
	if c.Producer == "rawtcp" || c.Producer == "rawudp" {
		obs.Published = append(obs.Published, sinkMessages(sim.Sink)...)
	}
	sim.Teardown()
	return obs
}

// sinkMessages splits what the sink received into newline-terminated lines.
// The connection's protocol field names the topic implicitly: vFlow opens one
// connection per protocol producer; messages are attributed by content.
func sinkMessages(k *simrt.Sink) []Published {
	var out []Published
	for _, c := range k.Conns {
		data := c.Bytes
		for {
			i := bytes.IndexByte(data, '\n')
			if i < 0 {
				break
			}
			out = append(out, Published{Proto: "", Payload: append([]byte(nil), data[:i]...)})
			data = data[i+1:]
		}
	}
	return out
}

func planHash(plan []byte) uint64 { return hash64(plan) }

// execPipe is the Exec function shared by all whole-pipeline scenarios.
func execPipe(t *testing.T, prop string, planJSON []byte, ch *simrt.Choices, trace bool) *RunOut {
	var p PipePlan
	out := &RunOut{Scenario: "pipe", PlanJSON: planJSON, Faults: map[string]int{}, Probes: map[string]int{}, PlanHash: planHash(planJSON)}
	if err := json.Unmarshal(planJSON, &p); err != nil {
		out.Inconclusive = "bad-plan: " + err.Error()
		return out
	}
	finalizePipe(&p)
	var obs *PipeObs
	raceMark := raceLogMark()
	if pv := bubble(t, func() { obs = runPipe(&p, ch, trace, nil) }); pv != nil {
		out.Inconclusive = fmt.Sprintf("harness-panic: %v", pv)
		out.Violations = append(out.Violations, Violation{Prop: prop, Class: "harness-panic", Key: "harness", Msg: fmt.Sprint(pv)})
		return out
	}
	fillRunOut(out, &p, obs)
	evalPipe(prop, &p, obs, out)
	if prop == "C16" && len(out.Violations) == 0 && obs.PanicVal == "" && !obs.Exited {
		// mirroring must not change what is decoded and published: the same
		// plan with mirroring off (own choice stream, derived from the plan)
		q := p
		q.Cfg.MirrorIPFIX, q.Cfg.MirrorSFlow = "", ""
		finalizePipe(&q)
		var obs2 *PipeObs
		if pv := bubble(t, func() { obs2 = runPipe(&q, simrt.NewChoices(int64(out.PlanHash>>1)), false, nil) }); pv == nil && obs2.PanicVal == "" && obs2.HarnessErr == "" {
			a, b := indexPublished(obs), indexPublished(obs2)
			for k, pa := range a {
				pb := b[k]
				if len(pa) != len(pb) {
					out.Violations = append(out.Violations, Violation{Prop: prop, Class: "mirror-changes-output", Key: "message count",
						Msg: fmt.Sprintf("key %s: %d messages published with mirroring on, %d with mirroring off", k, len(pa), len(pb))})
					break
				}
				if len(pa) > 0 {
					x := reColTime.ReplaceAll(obs.Published[pa[0]].Payload, []byte(`"ColTime":0`))
					y := reColTime.ReplaceAll(obs2.Published[pb[0]].Payload, []byte(`"ColTime":0`))
					if !bytes.Equal(x, y) {
						out.Violations = append(out.Violations, Violation{Prop: prop, Class: "mirror-changes-output", Key: "message content",
							Msg: fmt.Sprintf("key %s is published differently with mirroring on:\n on:  %s\n off: %s", k, tail(string(x), 300), tail(string(y), 300))})
						break
					}
				}
			}
			out.Probes["mirror-off-differential-runs"]++
		}
	}
	if simrt.RaceBuild {
		checkRaceLog(prop, raceMark, out, pipeRaceScope)
	}
	return out
}

func fillRunOut(out *RunOut, p *PipePlan, obs *PipeObs) {
	out.Choices = obs.Choices
	out.Trace = obs.Trace
	out.Steps = obs.Steps
	out.SimTime = obs.SimTime
	out.TraceHash, out.ProjHash = obs.TraceHash, obs.ProjHash
	out.NonTrivial = len(obs.Published) > 0 || len(obs.Recv) > 0
	out.Faults["stall"] += int(obs.Stats.Stalls)
	out.Faults["preemption"] += int(obs.Stats.Preemptions)
	out.Faults["socket-overflow"] += obs.Overflow
	out.Faults["pool-reuse"] += obs.Pool.Reused
	out.Probes["pool-double-put-seen"] += obs.Pool.DoublePut
	for _, d := range p.Dels {
		if d.mismatchOnly {
			out.Probes["model-mismatch-without-reannouncement-in-phase"]++
		}
		for _, m := range d.Mut {
			out.Faults["net-"+m.Kind]++
		}
		if d.DupOf > 0 {
			out.Faults["net-duplicate"]++
		}
		if d.Raw != nil {
			out.Faults["net-garbage"]++
		}
	}
	for _, f := range obs.SinkScript {
		if f.Fired {
			out.Faults["sink-"+f.Kind]++
		}
	}
	if obs.Signaled {
		out.Faults["signal"]++
	}
	if p.Profile != "" && p.Profile != "clean" {
		out.Probes["profile:"+p.Profile]++
	}
	out.Probes["delivered-while-the-collector-was-starting"] += obs.EarlyDelivered
	out.Probes["published"] += len(obs.Published)
	out.Probes["received"] += len(obs.Recv)
	out.Probes["raw-packets-mirrored"] += len(obs.Raw)
	out.Probes["boot-barrier-releases"] = simrt.DbgRel
	out.Probes["boot-barrier-acquires"] = simrt.DbgAcq
	if obs.HarnessErr != "" {
		out.Inconclusive = "harness: " + obs.HarnessErr
	} else if obs.Stop == simrt.StopSteps || obs.Stop == simrt.StopDeadline {
		out.Inconclusive = obs.Stop
	}
	if p.Cfg.DynWorkers {
		out.Probes["dyn-runs"]++
		if obs.Stats.TasksMade > 40 {
			out.Probes["dyn-scaled-up"]++
			for _, sn := range obs.Snaps {
				if sn.Phase >= 2 && sn.Stats != nil {
					for _, pr := range allProtos {
						if st := sn.Stats.get(pr); st != nil && p.Cfg.Enabled[pr] && int(st.Workers) < p.Cfg.Workers[pr]+30 {
							out.Probes["dyn-scaled-down"]++
						}
					}
					break
				}
			}
		}
	}
	// state fingerprint: counters at phase ends
	var h uint64
	for _, s := range obs.Snaps {
		if s.Stats != nil {
			b, _ := json.Marshal(s.Stats)
			h = splitmix(h ^ hash64(b))
		}
	}
	out.StateHash = h
}
