//go:build verif

package main

import (
	"encoding/json"
	"math/rand"

	"github.com/EdgeCast/vflow/verifsim/model"
)

// PipeGenOpts steers the whole-pipeline plan generator.
type PipeGenOpts struct {
	Protos      []string
	HardStrings bool
	NonFinite   bool
	Enterprise  bool
	TinyRecords bool
	VarLen      bool
	Reduced     bool
	Benign      bool // duplicates and same-instant bursts
	Mirror      bool
	Producer    string
	Filter      bool
	MaxDels     int
	Stalls      bool
	SmallMQ     bool
	BigUDP      bool
	V5Anomalies bool
	UnknownTpl  bool // data for templates never announced
	Reannounce  bool // later phases redefine templates
	FillToMax   bool // some datagrams are padded to within 40 octets of max-udp-size
	SmallUDP    bool // max-udp-size may be small
	BadHeaders  bool // datagrams whose header must be rejected (wrong version, too short)
	Volume      bool // one worker, several hundred datagrams, a slow consumer: more than a megabyte of output waits in or has passed through one worker's hands
	MidPolls    bool // stats API read in the middle of phases as well
	SockLoss    bool // tiny socket receive queue: bursts lose datagrams before the collector reads them
	VolumeDeep  bool // volume profile with several thousand datagrams and a consumer that falls far behind (the outgoing queue overflows)
	Early       bool // the first phase is sent while the collector is still starting (slow disk)
	LongGap     int  // seconds of silence between the first phase (announcements) and the later ones
	Dyn         bool // dynamic workers: load peak, long idle period (scale-down), then traffic again
	Hostile     bool // add hostile exporters (structurally hostile and byte-corrupted datagrams) and liveness probes
}

func pickSubset(r *rand.Rand, all []string) []string {
	if r.Intn(2) == 0 {
		return append([]string(nil), all...)
	}
	var out []string
	for _, a := range all {
		if r.Intn(2) == 0 {
			out = append(out, a)
		}
	}
	if len(out) == 0 {
		out = []string{all[r.Intn(len(all))]}
	}
	return out
}

func genAddr(r *rand.Rand, v4only bool) []byte {
	k := r.Intn(3)
	if v4only {
		k = r.Intn(2)
	}
	switch k {
	case 0:
		return []byte{10, byte(r.Intn(256)), byte(r.Intn(256)), byte(1 + r.Intn(254))}
	case 1:
		return []byte{0, 0, 0, 0, 0, 0, 0, 0, 0, 0, 0xff, 0xff, 192, 168, byte(r.Intn(256)), byte(1 + r.Intn(254))}
	}
	b := make([]byte, 16)
	r.Read(b)
	b[0] = 0x20
	b[1] = 0x01
	return b
}

func baseCfg(r *rand.Rand, protos []string, o *PipeGenOpts) NodeCfg {
	c := NodeCfg{Enabled: map[string]bool{}, Workers: map[string]int{}, UDPSize: map[string]int{}}
	for _, p := range protos {
		c.Enabled[p] = true
	}
	for _, p := range allProtos {
		c.Workers[p] = 1 + r.Intn(4)
		if r.Intn(4) == 0 {
			c.Workers[p] = 1 + r.Intn(8)
		}
		if r.Intn(6) == 0 {
			c.Workers[p] = 1
		}
		c.UDPSize[p] = 1500
		if o.BigUDP && r.Intn(3) == 0 {
			c.UDPSize[p] = []int{9000, 65507}[r.Intn(2)]
		}
		if o.SmallUDP && r.Intn(3) == 0 {
			c.UDPSize[p] = []int{600, 1000, 1472}[r.Intn(3)]
		}
	}
	c.CapUDP = []int{1, 2, 16, 1000}[r.Intn(4)]
	c.CapMQ = 1000
	c.CapMirror = 1000
	c.SockQueue = 4096
	if o.SockLoss {
		// a receive queue of a few datagrams: bursts overflow it and the
		// datagrams that do not fit are lost before the collector sees them
		c.SockQueue = 1 + r.Intn(6)
	}
	c.PoolPolicy = r.Intn(4)
	// deployment layout
	c.ConfLinked = r.Intn(3) == 0
	c.TmpOtherFS = r.Intn(3) == 0
	c.StatsProm = r.Intn(3) == 0
	c.Poison = true
	if o.Stalls && r.Intn(2) == 0 {
		c.StallProb = []int{20, 50, 100}[r.Intn(3)]
		c.StallMaxMs = []int{5, 50, 200}[r.Intn(3)]
	}
	c.KeepBias = []int{0, 0, 500, 900}[r.Intn(4)]
	c.Producer = "tap"
	if o.Producer != "" {
		c.Producer = o.Producer
	}
	c.RetryMax = 2
	c.ExtElements = o.Enterprise
	c.Verbose = r.Intn(8) == 0
	return c
}

// flowExporter holds generator state for one IPFIX / v9 exporter.
type flowExporter struct {
	idx  int
	g    *model.Gen
	tpls []model.Template
}

func genPipePlan(seed int64, o PipeGenOpts) *PipePlan {
	r := rand.New(rand.NewSource(seed))
	p := &PipePlan{Profile: "clean"}
	p.Life.SignalPhase = -1
	p.Cfg = baseCfg(r, o.Protos, &o)
	if o.Mirror {
		p.Cfg.MirrorPort = 4000 + r.Intn(1000)
		p.Cfg.MirrorWorkers = 1 + r.Intn(3)
		tgt := []string{"192.0.2.1", "203.0.113.77", "10.0.0.1"}[r.Intn(3)]
		if p.Cfg.Enabled[pIPFIX] {
			p.Cfg.MirrorIPFIX = tgt
		}
		if p.Cfg.Enabled[pSFlow] {
			p.Cfg.MirrorSFlow = tgt
		}
		if r.Intn(3) == 0 {
			p.Cfg.CapMirror = 1 + r.Intn(2) // back-pressure: the non-blocking hand-off to the mirror often finds the queue full
		}
	}
	if o.Filter {
		p.Cfg.FilterViaFile = r.Intn(2) == 0
		switch r.Intn(12) {
		case 9, 10, 11:
			// any list: small type numbers, numbers that no sample carries (also
			// beyond the 12 bits of a format number), duplicates
			n := 1 + r.Intn(4)
			for i := 0; i < n; i++ {
				switch r.Intn(4) {
				case 0:
					p.Cfg.SFlowFilter = append(p.Cfg.SFlowFilter, uint32(1+r.Intn(7)))
				case 1:
					p.Cfg.SFlowFilter = append(p.Cfg.SFlowFilter, uint32(64+r.Intn(200)))
				case 2:
					p.Cfg.SFlowFilter = append(p.Cfg.SFlowFilter, []uint32{65, 66, 129, 130, 4097, 4098, 1<<32 - 63, 1<<32 - 62, 1 << 31, 256, 257, 258}[r.Intn(12)])
				default:
					p.Cfg.SFlowFilter = append(p.Cfg.SFlowFilter, r.Uint32())
				}
			}
		case 5:
			p.Cfg.SFlowFilter = []uint32{2, 1}
		case 6:
			p.Cfg.SFlowFilter = []uint32{7, 3, 1}
		case 7:
			p.Cfg.SFlowFilter = []uint32{2, 2, 4095, 1}
		case 0:
			p.Cfg.SFlowFilter = []uint32{1}
		case 1:
			p.Cfg.SFlowFilter = []uint32{2}
		case 2:
			p.Cfg.SFlowFilter = []uint32{3}
		case 3:
			p.Cfg.SFlowFilter = []uint32{1, 2}
		case 4:
			p.Cfg.SFlowFilter = []uint32{4, 7, 2}
		}
	}
	im := modelIM(&p.Cfg)
	maxDels := o.MaxDels
	if maxDels <= 0 {
		maxDels = 40
	}
	nPhases := 2 + r.Intn(3)
	p.NPhases = nPhases
	nextID := 0
	add := func(d Delivery) int {
		d.ID = nextID
		nextID++
		p.Dels = append(p.Dels, d)
		return d.ID
	}
	at := func() int {
		switch r.Intn(4) {
		case 0:
			return 0 // burst at the opening instant
		case 1:
			return 1000 * (1 + r.Intn(3)) // coinciding instants
		}
		return r.Intn(50000)
	}
	seqOf := func() uint32 { return uint32(1000 + nextID) }

	for _, proto := range o.Protos {
		nEx := 1 + r.Intn(3)
		switch proto {
		case pIPFIX, pNF9:
			mp := "ipfix"
			if proto == pNF9 {
				mp = "nf9"
			}
			var exps []*flowExporter
			for e := 0; e < nEx; e++ {
				ex := ExporterPlan{Addr: genAddr(r, o.Mirror), Port: 1024 + r.Intn(60000), Proto: proto, SpareCap: r.Intn(2) == 0, Domain: uint32(len(p.Exporters) + 1)}
				p.Exporters = append(p.Exporters, ex)
				g := model.NewGen(r, im, model.GenOpts{Proto: mp, Enterprise: o.Enterprise, HardStrings: o.HardStrings, NonFinite: o.NonFinite,
					VarLen: o.VarLen, Reduced: o.Reduced, TinyRecords: o.TinyRecords, MaxSize: p.Cfg.udpSize(proto) - 100})
				fe := &flowExporter{idx: len(p.Exporters) - 1, g: g}
				nt := 1 + r.Intn(4)
				base := uint16(256 + r.Intn(1000))
				for t := 0; t < nt; t++ {
					fe.tpls = append(fe.tpls, g.Template(base+uint16(t)))
				}
				exps = append(exps, fe)
			}
			for _, fe := range exps {
				ex := p.Exporters[fe.idx]
				// phase 0: announce the templates in one or several datagrams
				rest := fe.tpls
				for len(rest) > 0 {
					n := 1 + r.Intn(len(rest))
					m := &model.Msg{Proto: mp, Time: r.Uint32(), Seq: seqOf(), Domain: ex.Domain, SysUp: r.Uint32()}
					m.Sets = fe.g.TemplateSets(rest[:n])
					if r.Intn(3) == 0 {
						// data for a template announced earlier in the same message
						t := &rest[r.Intn(n)]
						ds, _ := fe.g.DataSet(t, 1+r.Intn(4), 600)
						m.Sets = append(m.Sets, ds)
					}
					add(Delivery{Phase: 0, AtUs: at(), Proto: proto, Exporter: fe.idx, Abs: m})
					rest = rest[n:]
				}
				// later phases: data
				var pending *model.Template
				for ph := 1; ph < nPhases; ph++ {
					if pending != nil {
						// the redefinition announced in the previous phase is now in force
						for ti := range fe.tpls {
							if fe.tpls[ti].ID == pending.ID {
								fe.tpls[ti] = *pending
							}
						}
						pending = nil
					}
					if o.Reannounce && ph >= 1 && ph < nPhases-1 && r.Intn(2) == 0 {
						// re-announce one template with a different definition; data of
						// this phase for that id is ambiguous, later phases use the new one
						old := fe.tpls[r.Intn(len(fe.tpls))]
						nt := fe.g.Template(old.ID)
						if r.Intn(3) == 0 && len(old.Fields) > 0 {
							// same elements, other lengths
							nt = old
							nt.Fields = append([]model.FieldSpec(nil), old.Fields...)
							for fi := range nt.Fields {
								if nt.Fields[fi].Len != 65535 && nt.Fields[fi].Len > 1 {
									nt.Fields[fi].Len--
								}
							}
						}
						if !nt.Equal(&old) {
							m := &model.Msg{Proto: mp, Time: r.Uint32(), Seq: seqOf(), Domain: ex.Domain, SysUp: r.Uint32()}
							m.Sets = fe.g.TemplateSets([]model.Template{nt})
							add(Delivery{Phase: ph, AtUs: at(), Proto: proto, Exporter: fe.idx, Abs: m})
							pending = &nt
						}
					}
					nd := 1 + r.Intn(4)
					for k := 0; k < nd && len(p.Dels) < maxDels; k++ {
						m := &model.Msg{Proto: mp, Time: r.Uint32(), Seq: seqOf(), Domain: ex.Domain, SysUp: r.Uint32()}
						budget := 100 + r.Intn(p.Cfg.udpSize(proto)-200)
						used := 20
						ns := 1 + r.Intn(3)
						for s := 0; s < ns; s++ {
							t := &fe.tpls[r.Intn(len(fe.tpls))]
							if used+4+fe.g.MinRecLen(t)+300 > budget && s > 0 {
								break
							}
							ds, sz := fe.g.DataSet(t, 1+r.Intn(12), budget-used)
							if used+sz > p.Cfg.udpSize(proto)-20 {
								break
							}
							m.Sets = append(m.Sets, ds)
							used += sz
						}
						if o.UnknownTpl && r.Intn(5) == 0 {
							m.Sets = append(m.Sets, fe.g.UndecodableSet(uint16(5000+r.Intn(100))))
						}
						if o.Reannounce && ph == nPhases-1 && pending == nil && r.Intn(3) == 0 && used < 700 {
							// within one message: data for a known template, then the template
							// redefined, then data that must already use the new definition
							// (last phase only: nothing later depends on it)
							ti := r.Intn(len(fe.tpls))
							old := fe.tpls[ti]
							nt := fe.g.Template(old.ID)
							if !nt.Equal(&old) && fe.g.MinRecLen(&nt) < 200 {
								d0, _ := fe.g.DataSet(&old, 1+r.Intn(2), 200)
								d1, _ := fe.g.DataSet(&nt, 1+r.Intn(2), 300)
								saved := m.Sets
								m.Sets = append(append([]model.Set(nil), saved...), d0)
								m.Sets = append(m.Sets, fe.g.TemplateSets([]model.Template{nt})...)
								m.Sets = append(m.Sets, d1)
								if enc, _ := m.Encode(func(id uint16) *model.Template {
									for k := range fe.tpls {
										if fe.tpls[k].ID == id {
											return &fe.tpls[k]
										}
									}
									return nil
								}); len(enc) > p.Cfg.udpSize(proto)-20 {
									m.Sets = saved // would not fit into one datagram
								} else {
									fe.tpls[ti] = nt
								}
							}
						}
						if o.Reannounce && ph == nPhases-1 && pending == nil && r.Intn(4) == 0 && used < 700 {
							// the exporter replaces a template by a definition that describes
							// empty records (no fields, or fields of length zero) and keeps
							// sending data sets under that id: they must yield nothing - the
							// superseded definition must not be applied to them
							ti := r.Intn(len(fe.tpls))
							old := fe.tpls[ti]
							if ml := fe.g.MinRecLen(&old); ml > 0 && ml < 200 && r.Intn(3) == 0 {
								// ... or by a definition that uses an element the information
								// model lacks: data sets under the new definition are undecodable
								// and must be skipped, not decoded under the superseded one
								nt := old
								nt.Fields = append([]model.FieldSpec(nil), old.Fields...)
								nt.Scope = append([]model.FieldSpec(nil), old.Scope...)
								unk := model.FieldSpec{ID: uint16(21000 + r.Intn(500)), Len: uint16(1 + r.Intn(8))}
								if len(nt.Fields) > 0 {
									nt.Fields[r.Intn(len(nt.Fields))] = unk
								} else {
									nt.Fields = []model.FieldSpec{unk}
								}
								d1, _ := fe.g.DataSet(&nt, 1+r.Intn(3), 300)
								saved := m.Sets
								m.Sets = append(append([]model.Set(nil), saved...), fe.g.TemplateSets([]model.Template{nt})...)
								m.Sets = append(m.Sets, d1)
								if enc, _ := m.Encode(func(id uint16) *model.Template {
									for k := range fe.tpls {
										if fe.tpls[k].ID == id {
											return &fe.tpls[k]
										}
									}
									return nil
								}); len(enc) > p.Cfg.udpSize(proto)-20 {
									m.Sets = saved
								} else {
									fe.tpls[ti] = nt
								}
							} else if ml > 0 && ml < 200 {
								nt := model.Template{ID: old.ID}
								switch r.Intn(3) {
								case 0: // no fields at all
								case 1: // the same elements, every length zero
									for _, f := range old.AllFields() {
										f.Len = 0
										nt.Fields = append(nt.Fields, f)
									}
								default: // an options template with zero-length scope and option
									nt.Options = true
									f := old.AllFields()[0]
									f.Len = 0
									nt.Scope, nt.Fields = []model.FieldSpec{f}, []model.FieldSpec{f}
								}
								d0, _ := fe.g.DataSet(&old, 1+r.Intn(3), 300)
								body := model.EncodeRecords(&old, d0.Recs, mp == "ipfix")
								saved := m.Sets
								m.Sets = append(append([]model.Set(nil), saved...), fe.g.TemplateSets([]model.Template{nt})...)
								m.Sets = append(m.Sets, model.Set{Kind: model.SetRaw, RawID: old.ID, RawBody: body})
								if enc, _ := m.Encode(func(id uint16) *model.Template {
									for k := range fe.tpls {
										if fe.tpls[k].ID == id {
											return &fe.tpls[k]
										}
									}
									return nil
								}); len(enc) > p.Cfg.udpSize(proto)-20 {
									m.Sets = saved
								} else {
									fe.tpls[ti] = nt
								}
							}
						}
						if o.Reannounce && r.Intn(12) == 0 && used < 900 && len(m.Sets) > 0 {
							// a template whose field lengths add up to more than any set can
							// hold (each length fits its 16 bits, the sum does not): no record
							// of it can ever be present, a data set under its id is padding
							// only, and the other sets of the message decode as usual
							ga := 30000 + r.Intn(30000)
							gb := 65536 - ga + r.Intn(9) // the sum passes 2^16 by 0..8
							if r.Intn(3) == 0 {
								gb = 35536 + r.Intn(29000)
							}
							giant := model.Template{ID: uint16(60000 + r.Intn(1000)), Fields: []model.FieldSpec{
								{ID: 210, Len: uint16(ga)}, {ID: 210, Len: uint16(gb)}}}
							body := make([]byte, 4*r.Intn(12))
							r.Read(body)
							saved := m.Sets
							extra := append(fe.g.TemplateSets([]model.Template{giant}), model.Set{Kind: model.SetRaw, RawID: giant.ID, RawBody: body})
							if r.Intn(2) == 0 {
								m.Sets = append(append([]model.Set(nil), extra...), saved...)
							} else {
								m.Sets = append(append([]model.Set(nil), saved...), extra...)
							}
						}
						if len(m.Sets) == 0 {
							continue
						}
						if o.FillToMax && r.Intn(3) == 0 {
							// pad with a reserved set so that the datagram length lands within
							// 40 octets of the configured maximum (or exactly on it)
							enc, _ := m.Encode(func(id uint16) *model.Template {
								for ti := range fe.tpls {
									if fe.tpls[ti].ID == id {
										return &fe.tpls[ti]
									}
								}
								return nil
							})
							target := p.Cfg.udpSize(proto) - r.Intn(41)
							if r.Intn(3) == 0 {
								target = p.Cfg.udpSize(proto)
							}
							if fill := target - len(enc) - 4; fill >= 0 {
								m.Sets = append(m.Sets, model.Set{Kind: model.SetRaw, RawID: uint16(4 + r.Intn(200)), RawBody: make([]byte, fill)})
							}
						}
						// whatever was appended above (undecodable sets, fillers): the
						// datagram must fit into the collector's receive buffer, or the
						// collector rightly sees a cut message; drop trailing raw sets,
						// give the message up if that is not enough
						encLen := func() int {
							enc, _ := m.Encode(func(id uint16) *model.Template {
								for ti := range fe.tpls {
									if fe.tpls[ti].ID == id {
										return &fe.tpls[ti]
									}
								}
								return nil
							})
							return len(enc)
						}
						for encLen() > p.Cfg.udpSize(proto) && len(m.Sets) > 1 && m.Sets[len(m.Sets)-1].Kind == model.SetRaw {
							m.Sets = m.Sets[:len(m.Sets)-1]
						}
						if encLen() > p.Cfg.udpSize(proto) {
							continue
						}
						id := add(Delivery{Phase: ph, AtUs: at(), Proto: proto, Exporter: fe.idx, Abs: m})
						if o.Benign && r.Intn(8) == 0 {
							add(Delivery{Phase: ph, AtUs: at(), Proto: proto, Exporter: fe.idx, Abs: m, DupOf: id + 1})
						}
					}
				}
			}
		case pNF5:
			for e := 0; e < nEx; e++ {
				ex := ExporterPlan{Addr: genAddr(r, false), Port: 1024 + r.Intn(60000), Proto: proto, SpareCap: r.Intn(2) == 0, Domain: uint32(len(p.Exporters) + 1)}
				p.Exporters = append(p.Exporters, ex)
				ei := len(p.Exporters) - 1
				for ph := 0; ph < nPhases; ph++ {
					nd := r.Intn(4)
					for k := 0; k < nd && len(p.Dels) < maxDels; k++ {
						pk := model.GenV5(r, seqOf(), uint8(ex.Domain), !o.V5Anomalies || r.Intn(2) == 0)
						id := add(Delivery{Phase: ph, AtUs: at(), Proto: proto, Exporter: ei, V5: pk})
						if o.Benign && r.Intn(8) == 0 {
							add(Delivery{Phase: ph, AtUs: at(), Proto: proto, Exporter: ei, V5: pk, DupOf: id + 1})
						}
					}
				}
			}
		case pSFlow:
			for e := 0; e < nEx; e++ {
				ex := ExporterPlan{Addr: genAddr(r, o.Mirror), Port: 1024 + r.Intn(60000), Proto: proto, SpareCap: r.Intn(2) == 0, Domain: uint32(len(p.Exporters) + 1)}
				p.Exporters = append(p.Exporters, ex)
				ei := len(p.Exporters) - 1
				for ph := 0; ph < nPhases; ph++ {
					nd := r.Intn(4)
					for k := 0; k < nd && len(p.Dels) < maxDels; k++ {
						dg := model.GenSFDatagram(r, seqOf(), ex.Domain, p.Cfg.udpSize(proto)-50)
						if o.FillToMax && r.Intn(3) == 0 {
							target := p.Cfg.udpSize(proto) - r.Intn(41)
							if r.Intn(3) == 0 {
								target = p.Cfg.udpSize(proto)
							}
							target &^= 3
							if fill := target - len(dg.Encode()) - 8; fill >= 0 {
								dg.Samples = append(dg.Samples, model.SFSample{Format: 7, Unknown: make([]byte, fill)})
							}
						}
						id := add(Delivery{Phase: ph, AtUs: at(), Proto: proto, Exporter: ei, SF: dg})
						if o.Benign && r.Intn(8) == 0 {
							add(Delivery{Phase: ph, AtUs: at(), Proto: proto, Exporter: ei, SF: dg, DupOf: id + 1})
						}
					}
				}
			}
		}
	}
	if o.Dyn {
		// the dynamic-worker controller ticks every 120 s, samples the work queue
		// for 30 s, adds workers under load and retires them (closing their quit
		// channel) after 16 idle cycles. Phase 1 is moved onto the sampling
		// instants as bursts, the last phase far behind the scale-down.
		p.Profile = "dynamic-workers"
		p.Cfg.DynWorkers = true
		p.Cfg.SockQueue = 4096
		p.Cfg.CapUDP = 1000
		p.Cfg.KeepBias = 950 // long uninterrupted stretches: bursts pile up in the queue before the sampler looks
		p.Cfg.StallProb = 0
		for _, k := range allProtos { // fixed order: no map iteration in plan generation
			p.Cfg.Workers[k] = 1 + r.Intn(2)
		}
		var ph1 []int
		for i := range p.Dels {
			if p.Dels[i].Phase >= 1 && p.Dels[i].DupOf == 0 && !p.Dels[i].BadHeader {
				ph1 = append(ph1, i)
			}
		}
		n := len(p.Dels)
		if len(ph1) > 0 {
			// bursts: every phase >= 1 delivery is re-sent (new sequence number) on several sampling instants
			for inst := 0; inst < 30; inst++ {
				for _, i := range ph1 {
					if len(p.Dels) > n+600 {
						break
					}
					d := p.Dels[i]
					d.Phase = 1
					d.AbsUs = int64(121+inst) * 1000000
					d.AtUs = 0
					restamp(&d, uint32(20000+len(p.Dels)))
					add(d)
				}
			}
			for _, i := range ph1 {
				// the original later-phase traffic follows the scale-down
				p.Dels[i].Phase = 2
				// the first workers are retired when the 17th sampling window ends
				// (t = 2070 s); the receive loop drops one pooled buffer per idle
				// second, so traffic must follow the retirement closely
				p.Dels[i].AbsUs = 2070*1000000 + int64([]int{0, 0, 0, 1, 2, 4}[r.Intn(6)])*200000
				p.Dels[i].AtUs = 0
			}
			// network duplicates travel with their originals
			for i := range p.Dels {
				if o := p.Dels[i].DupOf; o > 0 && o-1 < n && p.Dels[o-1].Phase == 2 && p.Dels[o-1].AbsUs > 0 {
					p.Dels[i].Phase, p.Dels[i].AbsUs, p.Dels[i].AtUs = 2, p.Dels[o-1].AbsUs, 0
				}
			}
			// and a second copy of it in the same instants, so that several
			// datagrams are in flight at once
			for _, i := range ph1 {
				d := p.Dels[i]
				restamp(&d, uint32(40000+len(p.Dels)))
				add(d)
			}
			nPhases = 3
			p.NPhases = 3
		}
	}
	if o.Early && !o.Dyn {
		for i := range p.Dels {
			if p.Dels[i].Phase == 0 {
				p.Dels[i].Early = true
			}
		}
		p.Cfg.DiskReadMs = []int{5, 20, 100, 300}[r.Intn(4)]
	}
	if o.LongGap > 0 && !o.Dyn {
		p.Profile = "long-silence"
		// hours or days pass between the announcements and the data
		for i := range p.Dels {
			if p.Dels[i].Phase >= 1 {
				p.Dels[i].AbsUs = int64(o.LongGap)*1000000 + int64(p.Dels[i].Phase)*5000000 + int64(p.Dels[i].AtUs)
				p.Dels[i].AtUs = 0
			}
		}
	}
	if o.Volume && !o.Dyn {
		p.Profile = "volume"
		// volume: the data datagrams of the later phases are sent again and again
		// (new sequence numbers) until several hundred are in flight towards one
		// worker per protocol, and the consumer of the outgoing queue is slow
		for _, k := range allProtos {
			p.Cfg.Workers[k] = 1
		}
		p.Cfg.CapUDP = 1000
		p.Cfg.CapMQ = 1000
		p.Cfg.SockQueue = 4096
		p.Cfg.TapDelayUs = []int{0, 200, 2000}[r.Intn(3)]
		var src []int
		for i := range p.Dels {
			d := &p.Dels[i]
			if d.Phase >= 1 && d.DupOf == 0 && !d.BadHeader && d.Raw == nil && len(d.Mut) == 0 {
				src = append(src, i)
			}
		}
		total := 500 + r.Intn(350)
		if o.VolumeDeep && !o.Mirror {
			total = 4300 + r.Intn(1500)
			p.Cfg.TapDelayUs = 20000
		}
		if o.Mirror {
			// the mirror's socket is slow: its queues (a thousand datagrams deep) fill up
			total = 1200 + r.Intn(700)
			p.Cfg.RawSendDelayUs = []int{300, 1000, 5000}[r.Intn(3)]
			p.Cfg.TapDelayUs = 0
			p.Cfg.CapMirror = []int{1, 16, 1000, 3000}[r.Intn(4)]
		}
		for n := 0; len(src) > 0 && n < total; n++ {
			d := p.Dels[src[n%len(src)]]
			d.AtUs = r.Intn(20000)
			d.AbsUs = 0
			restamp(&d, uint32(100000+len(p.Dels)))
			add(d)
		}
	}
	if o.BadHeaders {
		// rejected datagrams, interleaved with the rest: wrong version or
		// shorter than the protocol header
		n := len(p.Dels)
		for i := 0; i < n && len(p.Dels) < maxDels+10; i++ {
			if r.Intn(5) != 0 {
				continue
			}
			src := p.Dels[i]
			if src.DupOf > 0 {
				continue
			}
			var enc []byte
			switch {
			case src.Abs != nil:
				enc, _ = src.Abs.Encode(func(uint16) *model.Template { return nil })
			case src.V5 != nil:
				enc = src.V5.Encode()
			case src.SF != nil:
				enc = src.SF.Encode()
			}
			if len(enc) < 8 {
				continue
			}
			raw := append([]byte(nil), enc...)
			if src.SF != nil && len(src.SF.Samples) > 0 && r.Intn(2) == 0 {
				// a well-formed sFlow datagram cut before the type/length word of its
				// last announced sample is complete: some read (not a skip) meets the
				// end, the decode returns an error whatever the filter, and nothing
				// may be counted as decoded or published, even though samples in
				// front of the cut decoded cleanly
				head := *src.SF
				head.Samples = head.Samples[:len(head.Samples)-1]
				lim := len(head.Encode()) + 8
				if lim > len(raw) {
					lim = len(raw)
				}
				lo := 0
				if len(head.Samples) > 0 && r.Intn(4) != 0 {
					// most cuts fall behind the first sample
					one := *src.SF
					one.Samples = one.Samples[:1]
					lo = len(one.Encode())
				}
				if lo >= lim {
					lo = 0
				}
				raw = raw[:lo+r.Intn(lim-lo)]
			} else if r.Intn(2) == 0 {
				// another version number
				if src.SF != nil {
					raw[3] = byte([]int{0, 1, 4, 6, 9, 10}[r.Intn(6)])
				} else {
					raw[1] = byte([]int{0, 1, 4, 6, 7, 8, 11}[r.Intn(7)])
				}
			} else {
				raw = raw[:r.Intn(8)] // shorter than any header
			}
			add(Delivery{Phase: r.Intn(nPhases), AtUs: at(), Proto: src.Proto, Exporter: src.Exporter, Raw: raw, BadHeader: true})
		}
	}
	if o.Hostile {
		// hostile exporters: the histories of the library-level scenario,
		// delivered through the sockets in random phases; clean exporters keep
		// their exact expectations; a last phase carries one liveness probe per
		// clean flow exporter / protocol
		for _, proto := range o.Protos {
			lp := genLibPlan(r.Int63(), proto, "quick")
			base := len(p.Exporters)
			for _, ex := range lp.Exporters {
				ex.Hostile = true
				// addresses disjoint from every clean exporter by construction
				switch r.Intn(3) {
				case 0:
					ex.Addr = []byte{172, byte(16 + r.Intn(16)), byte(r.Intn(256)), byte(1 + r.Intn(254))}
				case 1:
					ex.Addr = []byte{0, 0, 0, 0, 0, 0, 0, 0, 0, 0, 0xff, 0xff, 172, byte(16 + r.Intn(16)), byte(r.Intn(256)), byte(1 + r.Intn(254))}
				default:
					ex.Addr = make([]byte, 16)
					r.Read(ex.Addr)
					ex.Addr[0] = 0xfd
				}
				ex.Domain = uint32(len(p.Exporters) + 1)
				p.Exporters = append(p.Exporters, ex)
			}
			for _, it := range lp.Items {
				if len(p.Dels) > maxDels+60 {
					break
				}
				d := it
				d.Exporter = base + it.Exporter
				d.Phase = r.Intn(nPhases)
				d.AtUs = at()
				d.DupOf = 0
				add(d)
			}
		}
		probePhase := nPhases
		nPhases++
		p.NPhases = nPhases
		n := len(p.Dels)
		seenEx := map[int]bool{}
		for i := n - 1; i >= 0; i-- {
			d := p.Dels[i]
			if p.Exporters[d.Exporter].Hostile || seenEx[d.Exporter] || d.DupOf > 0 || d.BadHeader || len(d.Mut) > 0 || d.Raw != nil {
				continue
			}
			if d.Abs != nil {
				hasData, hasTpl := false, false
				for _, s := range d.Abs.Sets {
					if s.Kind == model.SetData {
						hasData = true
					}
					if s.Kind == model.SetTemplate || s.Kind == model.SetOptions {
						hasTpl = true
					}
				}
				if !hasData || hasTpl || d.Phase == 0 {
					continue
				}
				m := *d.Abs
				m.Seq = uint32(70000 + len(p.Dels))
				d.Abs = &m
			} else if d.V5 != nil {
				if d.V5.Version != 5 || d.V5.Count < 1 || d.V5.Count > 30 || len(d.V5.Flows) < int(d.V5.Count) || d.V5.CutTo > 0 {
					continue
				}
				v := *d.V5
				v.Seq = uint32(70000 + len(p.Dels))
				d.V5 = &v
			} else if d.SF != nil {
				ok := false
				for _, sm := range d.SF.Samples {
					if sm.Format == 1 || sm.Format == 2 {
						ok = true
					}
				}
				if !ok {
					continue
				}
				sf := *d.SF
				sf.Seq = uint32(70000 + len(p.Dels))
				d.SF = &sf
			}
			seenEx[d.Exporter] = true
			d.Phase = probePhase
			d.AtUs = r.Intn(5000)
			d.Probe = true
			add(d)
		}
	}
	if p.Cfg.CapMQ <= len(p.Dels) {
		p.Cfg.CapMQ = len(p.Dels) + 8
	}
	if o.SmallMQ && r.Intn(4) == 0 {
		p.Cfg.CapMQ = 1 + r.Intn(3)
	}
	if o.MidPolls && !o.Dyn {
		// the stats API is read while datagrams are in flight: at delivery
		// instants and shortly after them
		n := 1 + r.Intn(6)
		for i := 0; i < n && len(p.Dels) > 0; i++ {
			d := &p.Dels[r.Intn(len(p.Dels))]
			if d.AbsUs > 0 {
				continue
			}
			p.MidPolls = append(p.MidPolls, MidPoll{Phase: d.Phase, AtUs: d.AtUs + []int{0, 0, 1, 50, 1000}[r.Intn(5)]})
		}
	}
	return p
}

// restamp gives a copy of a delivery its own sequence number.
func restamp(d *Delivery, seq uint32) {
	switch {
	case d.Abs != nil:
		m := *d.Abs
		m.Seq = seq
		d.Abs = &m
	case d.V5 != nil:
		v := *d.V5
		v.Seq = seq
		d.V5 = &v
	case d.SF != nil:
		sf := *d.SF
		sf.Seq = seq
		d.SF = &sf
	}
}

func marshalPlan(p *PipePlan) []byte {
	b, err := json.Marshal(p)
	if err != nil {
		panic(err)
	}
	return b
}

// shrinkPipe proposes plans with fewer deliveries / exporters / simpler config.
func shrinkPipe(planJSON []byte) [][]byte {
	var p PipePlan
	if json.Unmarshal(planJSON, &p) != nil {
		return nil
	}
	var out [][]byte
	drop := func(keep func(i int, d *Delivery) bool) {
		q := p
		q.Dels = nil
		remap := map[int]int{}
		for i := range p.Dels {
			d := p.Dels[i]
			if !keep(i, &d) {
				continue
			}
			if d.DupOf > 0 {
				n, ok := remap[d.DupOf-1]
				if !ok {
					continue
				}
				d.DupOf = n + 1
			}
			remap[d.ID] = len(q.Dels)
			d.ID = len(q.Dels)
			q.Dels = append(q.Dels, d)
		}
		if len(q.Dels) < len(p.Dels) {
			out = append(out, marshalPlan(&q))
		}
	}
	n := len(p.Dels)
	// halves, quarters, then single deliveries
	// (a plan of several hundred deliveries is megabytes of JSON per candidate:
	// only coarse chunks then - the finer ones come once it has shrunk)
	minChunk := 1
	if n > 120 {
		minChunk = n / 16
	}
	for chunk := n / 2; chunk >= minChunk && chunk >= 1; chunk /= 2 {
		for s := 0; s < n; s += chunk {
			s, e := s, s+chunk
			drop(func(i int, d *Delivery) bool { return i < s || i >= e })
		}
		if chunk == 1 {
			break
		}
	}
	// per protocol
	for _, pr := range allProtos {
		pr := pr
		drop(func(i int, d *Delivery) bool { return d.Proto != pr })
	}
	// simpler configuration
	simp := func(f func(q *PipePlan) bool) {
		var q PipePlan
		json.Unmarshal(planJSON, &q)
		if f(&q) {
			out = append(out, marshalPlan(&q))
		}
	}
	simp(func(q *PipePlan) bool {
		ch := false
		for k, v := range q.Cfg.Workers {
			if v > 1 {
				q.Cfg.Workers[k] = 1
				ch = true
			}
		}
		return ch
	})
	simp(func(q *PipePlan) bool {
		if q.Cfg.StallProb > 0 {
			q.Cfg.StallProb = 0
			return true
		}
		return false
	})
	simp(func(q *PipePlan) bool {
		if q.Cfg.CapUDP != 1000 {
			q.Cfg.CapUDP = 1000
			return true
		}
		return false
	})
	simp(func(q *PipePlan) bool {
		if q.Cfg.PoolPolicy != 0 {
			q.Cfg.PoolPolicy = 0
			return true
		}
		return false
	})
	// drop sets / records inside flow messages (not for plans of hundreds of
	// deliveries: one candidate per delivery, each megabytes of JSON)
	for i := range p.Dels {
		if n > 120 {
			break
		}
		if p.Dels[i].Abs == nil {
			continue
		}
		for si := range p.Dels[i].Abs.Sets {
			i, si := i, si
			if len(p.Dels[i].Abs.Sets) > 1 {
				simp(func(q *PipePlan) bool {
					a := q.Dels[i].Abs
					a.Sets = append(a.Sets[:si:si], a.Sets[si+1:]...)
					return true
				})
			}
			if len(p.Dels[i].Abs.Sets[si].Recs) > 1 {
				simp(func(q *PipePlan) bool {
					s := &q.Dels[i].Abs.Sets[si]
					s.Recs = s.Recs[:len(s.Recs)/2]
					return true
				})
			}
		}
	}
	return out
}
