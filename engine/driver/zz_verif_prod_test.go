//go:build verif

package main

import (
	"bytes"
	"encoding/json"
	"fmt"
	"log"
	"math/rand"
	"testing"
	"time"

	"github.com/EdgeCast/vflow/producer"
	"github.com/EdgeCast/vflow/verifsim/simrt"
)

// Producer scenario (C14): the real Producer.Run with the raw-socket backend
// writes to the simulated sink while the sink closes or resets the connection
// at scripted byte offsets, tears writes and stays down for a while.

// ProdPlan is one producer run.
type ProdPlan struct {
	Proto    string            `json:"proto"` // tcp | udp
	RetryMax int               `json:"retry_max"`
	Msgs     [][]byte          `json:"msgs"`
	GapUs    []int             `json:"gap_us"` // delay before handing over each message
	Script   []simrt.SinkFault `json:"script"`
	UDPLoss  []int             `json:"udp_loss,omitempty"`
	ChanCap  int               `json:"chan_cap"`
	// SharedBuf: the messages are handed over as consecutive sub-slices of one
	// buffer (their spare capacity runs into the messages behind them), the
	// way a caller that batches its output would; the producer must neither
	// write behind the end of a message nor change the buffer
	SharedBuf bool `json:"shared_buf,omitempty"`
}

// ProdObs is what happened.
type ProdObs struct {
	BufChanged string // the producer wrote into the caller's buffer
	HandedAt  []time.Duration
	Conns     []*simrt.SinkConnRec
	Dials     []simrt.DialRec
	Script    []simrt.SinkFault
	ErrCount  uint64
	RunErr    string
	Panic     string
	Stack     string
	Steps     uint64
	Hash      uint64
	EndAt     time.Duration
	Finished  bool
	Log       string
	Choices   []simrt.Choice
	Trace     []TraceStep
}

func runProd(p *ProdPlan, ch *simrt.Choices, trace bool) *ProdObs {
	obs := &ProdObs{}
	sim := simrt.New(ch)
	defer sim.Close()
	sim.TraceOn = trace
	sim.FS.Put(confDir+"/mq.conf", []byte(fmt.Sprintf("url: sink.example:9555\nprotocol: %s\nretry-max: %d\n", p.Proto, p.RetryMax)))
	sim.Sink.Script = append([]simrt.SinkFault(nil), p.Script...)
	sim.Sink.UDPLoss = p.UDPLoss
	capN := p.ChanCap
	if capN <= 0 {
		capN = 1000
	}
	mq := make(chan []byte, capN)
	var errCount uint64
	pr := producer.NewProducer("rawSocket")
	pr.MQConfigFile = confDir + "/mq.conf"
	pr.MQErrorCount = &errCount
	pr.Logger = log.New(simrt.Stderr, "[vflow] ", 0)
	pr.Chan = mq
	pr.Topic = "vflow.test"
	done := false
	sim.GoNamed("producer", false, func() {
		if err := pr.Run(); err != nil {
			obs.RunErr = err.Error()
		}
		obs.Finished = true
		done = true
	})
	var shared, sharedCopy []byte
	var handed [][]byte
	if p.SharedBuf {
		for _, m := range p.Msgs {
			shared = append(shared, m...)
		}
		shared = append(shared, "<guard>"...)
		sharedCopy = append([]byte(nil), shared...)
		off := 0
		for _, m := range p.Msgs {
			handed = append(handed, shared[off:off+len(m)]) // capacity up to the end of the buffer
			off += len(m)
		}
	}
	sim.GoNamed("feeder", true, func() {
		for i, m := range p.Msgs {
			g := 0
			if i < len(p.GapUs) {
				g = p.GapUs[i]
			}
			simrt.Sleep(time.Duration(g) * time.Microsecond)
			obs.HandedAt = append(obs.HandedAt, sim.Now())
			simrt.Yield(-80)
			if p.SharedBuf {
				mq <- handed[i]
			} else {
				mq <- append([]byte(nil), m...)
			}
			simrt.Yield(-80)
		}
		// let everything drain, then stop the producer like Shutdown() does
		simrt.Sleep(30 * time.Second)
		simrt.Yield(-80)
		close(mq)
		simrt.Yield(-80)
	})
	sim.OnIdle = func() bool { return done || sim.Now() > 10*time.Minute }
	sim.Run()
	if t := sim.Panicked; t != nil {
		obs.Panic = fmt.Sprint(t.Panic)
		obs.Stack = t.Stack
	}
	obs.Conns, obs.Dials, obs.Script = sim.Sink.Conns, sim.Sink.Dials, sim.Sink.Script
	if p.SharedBuf && !bytes.Equal(shared, sharedCopy) {
		for i := range shared {
			if shared[i] != sharedCopy[i] {
				obs.BufChanged = fmt.Sprintf("octet %d of the caller's buffer changed from %q to %q", i, sharedCopy[i], shared[i])
				break
			}
		}
	}
	obs.ErrCount = errCount
	obs.Steps, obs.Hash, obs.EndAt = sim.Seq, sim.TraceHash, sim.Now()
	obs.Log = sim.Log.String()
	obs.Choices = ch.Rec
	if trace {
		obs.Trace = traceOf(sim)
	}
	sim.Teardown()
	return obs
}

// checkSinkStream is the sink stream model of DESIGN.md 5.4.
func checkSinkStream(prop string, p *ProdPlan, obs *ProdObs, out *RunOut) {
	add := func(class, key, msg string) {
		out.Violations = append(out.Violations, Violation{Prop: prop, Class: class, Key: key, Msg: msg})
	}
	if obs.Panic != "" {
		add("panic", panicKey(obs.Stack, obs.Panic), "the producer panicked: "+obs.Panic+"\n"+trimStack(obs.Stack))
		return
	}
	if obs.RunErr != "" {
		out.Inconclusive = "producer-setup-failed: " + obs.RunErr
		return
	}
	if obs.BufChanged != "" {
		add("caller-buffer-modified", p.Proto, "the producer wrote outside the messages it was handed: "+obs.BufChanged)
	}
	index := map[string]int{}
	for i, m := range p.Msgs {
		index[string(m)] = i
	}
	// what the sink received, in connection order
	type got struct {
		idx  int
		conn int
	}
	var recv []got
	seen := map[int]int{}
	for ci, c := range obs.Conns {
		var units [][]byte
		var tailPart []byte
		if p.Proto == "udp" {
			for _, d := range c.Dgrams {
				if len(d) == 0 || d[len(d)-1] != '\n' {
					add("not-newline-terminated", p.Proto, fmt.Sprintf("connection %d: a datagram of %d octets is not newline terminated: %q", ci, len(d), tail(string(d), 120)))
					return
				}
				units = append(units, d[:len(d)-1])
			}
		} else {
			data := c.Bytes
			for {
				i := bytes.IndexByte(data, '\n')
				if i < 0 {
					break
				}
				units = append(units, data[:i])
				data = data[i+1:]
			}
			tailPart = data
		}
		for _, u := range units {
			i, ok := index[string(u)]
			if !ok {
				// not byte-identical to anything handed over
				add("corrupted-message", p.Proto+": "+corruptKind(u, p.Msgs), fmt.Sprintf("connection %d: the sink received a line that is not any message handed to the producer:\n got %q\n(nearest handed message: %q)", ci, tail(string(u), 200), tail(string(nearest(u, p.Msgs)), 200)))
				return
			}
			recv = append(recv, got{i, ci})
			seen[i]++
		}
		if len(tailPart) > 0 {
			okTail := false
			if c.Broken {
				for _, m := range p.Msgs {
					if bytes.HasPrefix(append(append([]byte(nil), m...), '\n'), tailPart) {
						okTail = true
						break
					}
				}
			}
			if !okTail {
				add("unterminated-tail", p.Proto, fmt.Sprintf("connection %d (broken=%v) ends with %d octets that are not newline terminated and not the beginning of a handed message: %q", ci, c.Broken, len(tailPart), tail(string(tailPart), 120)))
				return
			}
		}
	}
	for i, n := range seen {
		if n > 1 {
			add("duplicate-delivery", p.Proto, fmt.Sprintf("message %d (%q) was delivered %d times", i, tail(string(p.Msgs[i]), 80), n))
			return
		}
	}
	for k := 1; k < len(recv); k++ {
		if recv[k].idx < recv[k-1].idx {
			add("out-of-order", p.Proto, fmt.Sprintf("message %d arrived after message %d", recv[k].idx, recv[k-1].idx))
			return
		}
	}
	// bounded gap: around every failure at most deadAccept+3 messages may be
	// missing once the sink is reachable again; with no failure none
	budget := 0
	lastHeal := time.Duration(0)
	fired := 0
	for _, f := range obs.Script {
		if f.Fired && f.Kind == "stall" {
			continue // a sink that reads slowly has not failed: nothing may be lost
		}
		if f.Fired {
			fired++
			budget += f.DeadAccept + 3
			if h := f.FiredAt + f.DownFor; h > lastHeal {
				lastHeal = h
			}
		}
	}
	if p.Proto == "udp" {
		budget += len(p.UDPLoss)
	}
	missing := 0
	missingAfter := 0
	firstMissing := -1
	for i := range p.Msgs {
		if seen[i] == 0 {
			missing++
			if firstMissing < 0 {
				firstMissing = i
			}
			if i < len(obs.HandedAt) && obs.HandedAt[i] >= lastHeal {
				missingAfter++
			}
		}
	}
	// messages handed over while the sink was down may all be lost (bounded by
	// the retry limit); the liveness bound concerns what is handed over after
	// the last heal
	if fired == 0 && len(p.UDPLoss) == 0 && missing > 0 {
		add("lost-message", p.Proto+": no fault", fmt.Sprintf("%d of %d messages never reached the sink although it never failed (first missing: #%d %q); producer log: %s", missing, len(p.Msgs), firstMissing, tail(string(p.Msgs[firstMissing]), 80), tail(obs.Log, 300)))
		return
	}
	if missingAfter > budget {
		add("no-recovery", p.Proto, fmt.Sprintf("%d messages handed over after the sink was reachable again (last heal at %v) never arrived; at most %d may be lost around %d failures; dials: %d; producer log: %s", missingAfter, lastHeal, budget, fired, len(obs.Dials), tail(obs.Log, 300)))
	}
}

func nearest(u []byte, msgs [][]byte) []byte {
	best, bestN := []byte(nil), -1
	for _, m := range msgs {
		n := 0
		for n < len(u) && n < len(m) && u[n] == m[n] {
			n++
		}
		if n > bestN {
			best, bestN = m, n
		}
	}
	return best
}

func corruptKind(u []byte, msgs [][]byte) string {
	m := nearest(u, msgs)
	if bytes.Contains(m, []byte("%")) {
		return "message containing '%'"
	}
	return "other"
}

var prodAlphabet = []string{"%d", "%s", "%%", "%!", "%v", "%", "%5.2f", "%x", "{\"a\":1}", "\\n", "\t", "\"", "ü", "\x00", "\xff", " "}

func genProdPlan(seed int64, tier string) *ProdPlan {
	r := rand.New(rand.NewSource(seed))
	p := &ProdPlan{Proto: "tcp", RetryMax: r.Intn(6), ChanCap: []int{1, 16, 1000}[r.Intn(3)]}
	if r.Intn(4) == 0 {
		p.Proto = "udp"
	}
	p.SharedBuf = r.Intn(4) == 0
	n := 1 + r.Intn(60)
	if r.Intn(5) == 0 {
		n = 100 + r.Intn(400)
	}
	total := 0
	for i := 0; i < n; i++ {
		var b bytes.Buffer
		fmt.Fprintf(&b, `{"AgentID":"10.0.0.%d","Header":{"SequenceNo":%d},"DataSets":[[{"I":%d,"V":"`, r.Intn(255), i, r.Intn(400))
		k := r.Intn(12)
		if r.Intn(20) == 0 {
			k = 200 + r.Intn(800) // multi-kilobyte
		}
		if r.Intn(40) == 0 {
			// large messages, also around and beyond 64 KiB (a udp sink takes
			// at most one datagram's worth)
			k = []int{4000, 20000, 60000, 65400 + r.Intn(200), 100000, 300000}[r.Intn(6)]
			if p.Proto == "udp" && k > 15000 {
				k = 15000 // alphabet entries are several octets long: stays below one datagram
			}
		}
		for j := 0; j < k; j++ {
			switch r.Intn(4) {
			case 0:
				b.WriteString(prodAlphabet[r.Intn(len(prodAlphabet))])
			default:
				b.WriteByte(byte('a' + r.Intn(26)))
			}
		}
		b.WriteString(`"}]]}`)
		m := bytes.ReplaceAll(b.Bytes(), []byte("\n"), []byte(" "))
		if r.Intn(15) == 0 {
			// arbitrary octets except the framing delimiter
			m = make([]byte, 1+r.Intn(64))
			r.Read(m)
			m = bytes.ReplaceAll(m, []byte("\n"), []byte{0x0b})
			m = append([]byte(fmt.Sprintf("#%d:", i)), m...)
		}
		p.Msgs = append(p.Msgs, m)
		total += len(m) + 1
		g := r.Intn(2000)
		if r.Intn(4) == 0 {
			g = 0
		}
		if r.Intn(10) == 0 {
			g = 100000 + r.Intn(3000000)
		}
		p.GapUs = append(p.GapUs, g)
	}
	// fault script (tcp): faults inside the message stream
	if p.Proto == "tcp" && r.Intn(4) != 0 {
		nf := 1 + r.Intn(4)
		at := 0
		for i := 0; i < nf; i++ {
			at += r.Intn(total/nf + 1)
			f := simrt.SinkFault{Kind: []string{"reset", "close", "torn"}[r.Intn(3)], AtByte: at, DeadAccept: r.Intn(3)}
			if r.Intn(3) == 0 {
				// exactly at a message boundary
				acc := 0
				for _, m := range p.Msgs {
					acc += len(m) + 1
					if acc >= at {
						f.AtByte = acc
						break
					}
				}
			}
			if p.Proto == "tcp" && r.Intn(4) == 0 {
				f.Kind, f.DeadAccept = "stall", 0
			}
			switch r.Intn(4) {
			case 0:
				f.DownFor = 0
			case 1:
				f.DownFor = time.Duration(r.Intn(5000)) * time.Microsecond
			case 2:
				f.DownFor = time.Duration(r.Intn(3000)) * time.Millisecond
			default:
				f.DownFor = time.Duration(r.Intn(60)) * time.Second
			}
			p.Script = append(p.Script, f)
		}
	}
	if p.Proto == "udp" && r.Intn(2) == 0 {
		for i := 0; i < 1+r.Intn(3); i++ {
			p.UDPLoss = append(p.UDPLoss, r.Intn(n))
		}
	}
	return p
}

func genProdFor(prop, tier string, seed int64) []byte {
	b, _ := json.Marshal(genProdPlan(seed, tier))
	return b
}

func execProd(t *testing.T, prop string, planJSON []byte, ch *simrt.Choices, trace bool) *RunOut {
	out := &RunOut{Scenario: "prod", PlanJSON: planJSON, Faults: map[string]int{}, Probes: map[string]int{}, PlanHash: planHash(planJSON)}
	var p ProdPlan
	if err := json.Unmarshal(planJSON, &p); err != nil {
		out.Inconclusive = "bad-plan"
		return out
	}
	var obs *ProdObs
	if pv := bubble(t, func() { obs = runProd(&p, ch, trace) }); pv != nil {
		out.Violations = append(out.Violations, Violation{Prop: prop, Class: "harness-panic", Key: "harness", Msg: fmt.Sprint(pv)})
		return out
	}
	out.Choices, out.Trace, out.Steps, out.TraceHash = obs.Choices, obs.Trace, obs.Steps, obs.Hash
	out.SimTime = obs.EndAt
	out.NonTrivial = len(obs.Conns) > 0
	for _, f := range obs.Script {
		if f.Fired {
			out.Faults["sink-"+f.Kind]++
			if f.DownFor > 0 {
				out.Faults["sink-downtime"]++
			}
			if f.DeadAccept > 0 {
				out.Faults["sink-dead-accept"]++
			}
		}
	}
	for _, d := range obs.Dials {
		if !d.OK {
			out.Faults["sink-dial-refused"]++
		}
	}
	out.Faults["udp-loss"] += len(p.UDPLoss)
	if len(obs.Dials) > 1 {
		out.Probes["reconnects"] += len(obs.Dials) - 1
	}
	out.Probes["messages"] += len(p.Msgs)
	out.Probes["mq-error-count"] += int(obs.ErrCount)
	if !obs.Finished {
		out.Inconclusive = "producer-did-not-finish"
	}
	checkSinkStream(prop, &p, obs, out)
	recvd := 0
	for _, c := range obs.Conns {
		recvd += len(c.Bytes)
	}
	out.Sample = map[string]interface{}{"scenario": "prod", "proto": p.Proto, "retry_max": p.RetryMax, "messages": len(p.Msgs), "script": obs.Script,
		"connections": len(obs.Conns), "dials": len(obs.Dials), "octets_received": recvd, "mq_error_count": obs.ErrCount, "first_message": tail(string(p.Msgs[0]), 100)}
	return out
}

func shrinkProd(planJSON []byte) [][]byte {
	var p ProdPlan
	if json.Unmarshal(planJSON, &p) != nil {
		return nil
	}
	var out [][]byte
	emit := func(q ProdPlan) {
		b, _ := json.Marshal(&q)
		out = append(out, b)
	}
	n := len(p.Msgs)
	for chunk := n / 2; chunk >= 1; chunk /= 2 {
		for s := 0; s < n; s += chunk {
			e := s + chunk
			if e > n {
				e = n
			}
			q := p
			q.Msgs = append(append([][]byte(nil), p.Msgs[:s]...), p.Msgs[e:]...)
			q.GapUs = append(append([]int(nil), p.GapUs[:s]...), p.GapUs[e:]...)
			if len(q.Msgs) > 0 {
				emit(q)
			}
		}
		if chunk == 1 {
			break
		}
	}
	for i := range p.Script {
		q := p
		q.Script = append(append([]simrt.SinkFault(nil), p.Script[:i]...), p.Script[i+1:]...)
		emit(q)
	}
	for i := range p.Msgs {
		if len(p.Msgs[i]) > 8 {
			q := p
			q.Msgs = append([][]byte(nil), p.Msgs...)
			q.Msgs[i] = append([]byte(nil), p.Msgs[i][len(p.Msgs[i])/2:]...)
			emit(q)
		}
	}
	return out
}

var scProd = defScenario(&Scenario{Name: "prod", Gen: genProdFor, Exec: execProd, Shrink: shrinkProd})

func init() { register("C14", scProd, 10) }
