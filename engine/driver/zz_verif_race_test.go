//go:build verif

package main

import (
	"fmt"
	"os"
	"sort"
	"strings"
	"testing"

	"github.com/EdgeCast/vflow/verifsim/simrt"
)

// Race mode (DESIGN.md 3.10): the binary is built with -race, the simulator's
// own hand-offs are hidden from the detector, reports go to a log file which
// is read back after each run.

func raceLogPath() string {
	for _, f := range strings.Fields(os.Getenv("GORACE")) {
		if strings.HasPrefix(f, "log_path=") {
			return fmt.Sprintf("%s.%d", strings.TrimPrefix(f, "log_path="), os.Getpid())
		}
	}
	return ""
}

func raceLogMark() int64 {
	if !simrt.RaceBuild {
		return 0
	}
	st, err := os.Stat(raceLogPath())
	if err != nil {
		return 0
	}
	return st.Size()
}

type raceFrame struct {
	Fn   string
	File string
}

type raceAccess struct {
	Kind   string
	Frames []raceFrame
}

type raceReport struct {
	A, B raceAccess
	Text string
}

func parseRaceLog(s string) []raceReport {
	var out []raceReport
	for _, blk := range strings.Split(s, "==================") {
		if !strings.Contains(blk, "WARNING: DATA RACE") {
			continue
		}
		var rep raceReport
		rep.Text = blk
		var cur *raceAccess
		lines := strings.Split(blk, "\n")
		n := 0
		for i := 0; i < len(lines); i++ {
			l := lines[i]
			t := strings.TrimSpace(l)
			switch {
			case strings.HasPrefix(t, "Write at") || strings.HasPrefix(t, "Read at") || strings.HasPrefix(t, "Previous write at") || strings.HasPrefix(t, "Previous read at"):
				n++
				if n == 1 {
					cur = &rep.A
				} else if n == 2 {
					cur = &rep.B
				} else {
					cur = nil
				}
				if cur != nil {
					cur.Kind = strings.SplitN(t, " at ", 2)[0]
				}
			case strings.HasPrefix(t, "Goroutine ") || strings.HasPrefix(t, "Location:"):
				cur = nil
			case cur != nil && t != "" && !strings.HasPrefix(t, "/") && i+1 < len(lines) && strings.HasPrefix(strings.TrimSpace(lines[i+1]), "/"):
				fn := t
				if j := strings.LastIndex(fn, "("); j > 0 {
					fn = fn[:j]
				}
				cur.Frames = append(cur.Frames, raceFrame{Fn: fn, File: strings.TrimSpace(lines[i+1])})
				i++
			}
		}
		out = append(out, rep)
	}
	return out
}

const modPrefix = "github.com/EdgeCast/vflow/"

func isHarnessFrame(f raceFrame) bool {
	return strings.Contains(f.Fn, "/verifsim/") || strings.Contains(f.File, "zz_verif") || strings.Contains(f.File, "/verifsim/")
}

// programFrame returns the innermost frame of the access that belongs to the
// vFlow module; ok is false if that frame is harness code (the access was made
// by the simulator, not by the program).
func programFrame(a raceAccess) (raceFrame, bool) {
	for _, f := range a.Frames {
		if strings.HasPrefix(f.Fn, modPrefix) || strings.HasPrefix(f.Fn, "main.") {
			if isHarnessFrame(f) {
				return f, false
			}
			return f, true
		}
	}
	return raceFrame{}, false
}

func shortFn(fn string) string { return strings.TrimPrefix(fn, modPrefix) }

func inCachePkgs(a raceAccess) bool {
	for _, f := range a.Frames {
		if isHarnessFrame(f) {
			continue
		}
		if strings.HasPrefix(f.Fn, modPrefix+"ipfix.") || strings.HasPrefix(f.Fn, modPrefix+"netflow/v9.") {
			return true
		}
	}
	return false
}

func touchesCache(a raceAccess) bool {
	for _, f := range a.Frames {
		if strings.Contains(f.File, "memcache") && !isHarnessFrame(f) {
			return true
		}
	}
	return false
}

// cacheRaceScope: both accesses are made by code of the decoder / template-cache
// packages (ipfix, netflow/v9). In the cache scenario the tasks share nothing
// but the cache (and what it hands out: a retrieved template still points into
// arrays the cache owns), the read-only information model and the peer
// request channel, so any such report is a race between concurrent decoders,
// dumps or peer lookups.
func cacheRaceScope(r raceReport) bool {
	return inCachePkgs(r.A) && inCachePkgs(r.B)
}

// pipeRaceScope (C12): both accesses are made by datagram-processing code
// (workers, decoders, encoders, mirror workers, producer), i.e. the innermost
// program frame of neither access is one of the life-cycle functions main,
// run, shutdown, the mirror dispatchers' set-up or option parsing. vFlow
// orders start-up and shutdown by time, not by happens-before edges
// (DESIGN.md 3.10): the stop flags, the mirror-enabled flags set once by the
// dispatchers and the cache variables assigned in run() are formal races that
// belong to no listed property; they are counted in the evidence as notes.
func pipeRaceScope(r raceReport) bool {
	for _, a := range []raceAccess{r.A, r.B} {
		f, ok := programFrame(a)
		if !ok {
			return false
		}
		fn := shortFn(f.Fn)
		if strings.HasSuffix(fn, ").run") || strings.HasSuffix(fn, ").shutdown") || strings.HasSuffix(fn, "Dispatcher") ||
			strings.HasSuffix(fn, ".main") || strings.Contains(fn, "GetOptions") || strings.Contains(fn, ").run.func") && false {
			return false
		}
	}
	return true
}

func hasFrame(a raceAccess, sub string) bool {
	for _, f := range a.Frames {
		if !isHarnessFrame(f) && strings.Contains(f.Fn, sub) {
			return true
		}
	}
	return false
}

// lifeRaceScope (C15): a template-cache dump at shutdown against an access
// made by a worker that is (still) processing a datagram. run() and
// shutdown() are started by main with no happens-before edge between them, so
// everything run() did at boot (GetCache, the cache variable, the stop flag)
// formally races with shutdown even minutes later; vFlow orders those by time
// and they belong to no listed property (DESIGN.md 3.10): notes, not
// violations.
func lifeRaceScope(r raceReport) bool {
	d1, d2 := hasFrame(r.A, ".Dump"), hasFrame(r.B, ".Dump")
	w1, w2 := hasFrame(r.A, "Worker"), hasFrame(r.B, "Worker")
	return (d1 && w2) || (d2 && w1)
}

// checkRaceLog turns new race reports into violations (in scope) or notes.
func checkRaceLog(prop string, mark int64, out *RunOut, scope func(raceReport) bool) {
	p := raceLogPath()
	if p == "" {
		return
	}
	b, err := os.ReadFile(p)
	if err != nil || int64(len(b)) <= mark {
		return
	}
	for _, r := range parseRaceLog(string(b[mark:])) {
		fa, oka := programFrame(r.A)
		fb, okb := programFrame(r.B)
		if !oka || !okb {
			continue // at least one side is the simulator's own access
		}
		pair := []string{shortFn(fa.Fn), shortFn(fb.Fn)}
		sort.Strings(pair)
		key := pair[0] + " vs " + pair[1]
		if scope != nil && scope(r) {
			txt := r.Text
			if len(txt) > 3000 {
				txt = txt[:3000]
			}
			out.Violations = append(out.Violations, Violation{Prop: prop, Class: "race", Key: key, Msg: "the race detector reported unsynchronised accesses on this schedule:\n" + txt})
		} else {
			out.RaceNotes = append(out.RaceNotes, key)
		}
	}
}

// ---------------------------------------------------------------- blindness canary

var canaryVar int

//go:noinline
func canaryTouch(v int) { canaryVar += v }

// raceCanary runs two program-like tasks that touch one word with no program
// synchronisation between them; the detector must report it, otherwise some
// harness path has become visible to it and silence means nothing.
func raceCanary(t *testing.T) string {
	if !simrt.RaceBuild {
		return ""
	}
	// The detector's shadow memory is lossy (it is flushed under pressure), so
	// a single miss proves nothing; blindness caused by the harness would be
	// systematic. Six attempts; both tasks stay alive until both accesses are
	// made (the detector drops a report when it cannot restore the stack of
	// the earlier access, which happens once that goroutine has ended and its
	// slot has been reused - seen a few times in thousands of worker starts
	// on a loaded machine).
	p := raceLogPath()
	for attempt := 0; attempt < 6; attempt++ {
		mark := raceLogMark()
		bubble(t, func() {
			sim := simrt.New(simrt.NewChoices(int64(1 + attempt)))
			defer sim.Close()
			done := 0
			for i := 0; i < 2; i++ {
				sim.GoNamed("canary", false, func() {
					simrt.Yield(-50)
					canaryTouch(1)
					done++
					for spin := 0; done < 2 && spin < 100; spin++ {
						simrt.Yield(-50)
					}
					simrt.Yield(-50)
				})
			}
			sim.OnIdle = func() bool { return true }
			sim.Run()
			sim.Teardown()
		})
		b, _ := os.ReadFile(p)
		if int64(len(b)) > mark && strings.Contains(string(b[mark:]), "canaryTouch") {
			return ""
		}
	}
	return "race canary silent: the detector did not report a deliberately racy pair of accesses in six attempts (log " + p + ")"
}

var barrierVar int

//go:noinline
func barrierWrite() { barrierVar = 7 }

//go:noinline
func barrierRead() int { return barrierVar }

// raceBarrierSelfTest: a write made before the driver declares the boot
// complete and a read made afterwards by another task must NOT be reported
// (boot happens-before steady state); returns a description if it is.
func raceBarrierSelfTest(t *testing.T) string {
	if !simrt.RaceBuild {
		return ""
	}
	mark := raceLogMark()
	bubble(t, func() {
		sim := simrt.New(simrt.NewChoices(5))
		defer sim.Close()
		phase := 0
		sim.GoNamed("barrier-writer", false, func() {
			simrt.Yield(-51)
			barrierWrite()
			simrt.Yield(-51)
			simrt.Yield(-51)
		})
		gate := make(chan struct{})
		sim.GoNamed("barrier-reader", false, func() {
			simrt.Yield(-51)
			<-gate
			simrt.Yield(-51)
			_ = barrierRead()
			simrt.Yield(-51)
		})
		sim.OnIdle = func() bool {
			phase++
			if phase == 1 {
				sim.BootDone = true
				close(gate)
				return false
			}
			return true
		}
		sim.Run()
		sim.Teardown()
	})
	b, _ := os.ReadFile(raceLogPath())
	if int64(len(b)) > mark && strings.Contains(string(b[mark:]), "barrierRead") {
		return "boot barrier ineffective: a pre-boot write and a post-boot read were reported as a race"
	}
	return ""
}
