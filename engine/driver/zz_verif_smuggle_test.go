//go:build verif

package main

import (
	"encoding/binary"
	"encoding/json"
	"fmt"
	"math/rand"
	"net"
	"testing"

	"github.com/EdgeCast/vflow/ipfix"
	"github.com/EdgeCast/vflow/verifsim/simrt"
)

// Smuggle scenario (C04, IPFIX): what an exporter announces is defined by the
// set framing of its messages. A message is built in which one record's
// variable-length value claims more octets than its set has left, followed by
// a well-framed data set whose string value is filled with octets that look
// like a template set for an id S the exporter never announces. Whatever the
// decoder does with such a message (reject it, skip the set, skip the record)
// it must not treat the inside of a string value as a template announcement:
// data for S must remain "unknown" afterwards. The amount by which the value
// overruns its set is swept so that a decoder that carries on at the end of
// the overrunning record lands on every alignment of the filling.

// SmugglePlan is one sweep.
type SmugglePlan struct {
	Addr     []byte `json:"addr"`
	Tpl      uint16 `json:"tpl"`      // announced template: [fixed u8][string, variable length]
	Smuggled uint16 `json:"smuggled"` // id that only occurs inside string values
	Known    bool   `json:"known"`    // the smuggled id is also announced properly beforehand with another definition
	Real     int    `json:"real"`     // octets really present in the overrunning value
	Long     bool   `json:"long"`     // three-octet length form
	FillRecs int    `json:"fill_recs"`
}

func genSmuggleFor(prop, tier string, seed int64) []byte {
	r := rand.New(rand.NewSource(seed))
	p := &SmugglePlan{Addr: genAddr(r, false), Tpl: uint16(256 + r.Intn(40)), Smuggled: uint16(400 + r.Intn(400)), Known: r.Intn(3) == 0,
		Real: r.Intn(6), Long: r.Intn(3) == 0, FillRecs: 1 + r.Intn(3)}
	b, _ := json.Marshal(p)
	return b
}

func ipfixMsg(seq uint32, sets ...[]byte) []byte {
	b := make([]byte, 16)
	binary.BigEndian.PutUint16(b[0:], 10)
	binary.BigEndian.PutUint32(b[4:], 1)
	binary.BigEndian.PutUint32(b[8:], seq)
	binary.BigEndian.PutUint32(b[12:], 1)
	for _, s := range sets {
		b = append(b, s...)
	}
	binary.BigEndian.PutUint16(b[2:], uint16(len(b)))
	return b
}

func ipfixSet(id uint16, body []byte) []byte {
	b := make([]byte, 4, 4+len(body))
	binary.BigEndian.PutUint16(b[0:], id)
	binary.BigEndian.PutUint16(b[2:], uint16(4+len(body)))
	return append(b, body...)
}

func execSmuggle(t *testing.T, prop string, planJSON []byte, ch *simrt.Choices, trace bool) *RunOut {
	out := &RunOut{Scenario: "smuggle", PlanJSON: planJSON, Faults: map[string]int{}, Probes: map[string]int{}, PlanHash: planHash(planJSON)}
	var p SmugglePlan
	if err := json.Unmarshal(planJSON, &p); err != nil {
		out.Inconclusive = "bad-plan"
		return out
	}
	var findings []string
	pv := bubble(t, func() {
		sim := simrt.New(ch)
		defer sim.Close()
		resetGlobals(&NodeCfg{CapUDP: 1, CapMQ: 1, CapMirror: 1})
		simrt.SetFuel(20000000)
		defer simrt.SetFuel(0)
		done := false
		sim.GoNamed("smuggle", true, func() {
			defer func() { done = true }()
			defer func() {
				if r := recover(); r != nil {
					findings = append(findings, fmt.Sprintf("panic: %v", r))
				}
			}()
			ip := net.IP(append([]byte(nil), p.Addr...))
			// template: protocolIdentifier (4) 1 octet, interfaceName (82) variable length
			tpl := make([]byte, 0, 16)
			tpl = binary.BigEndian.AppendUint16(tpl, p.Tpl)
			tpl = binary.BigEndian.AppendUint16(tpl, 2)
			tpl = append(tpl, 0, 4, 0, 1, 0, 82, 0xff, 0xff)
			// the pattern: a template set defining the smuggled id as sourceIPv4Address/4
			pat := ipfixSet(2, append(binary.BigEndian.AppendUint16(nil, p.Smuggled), 0, 1, 0, 8, 0, 4))
			lenPrefix := func(n int, long bool) []byte {
				if long || n >= 255 {
					return []byte{255, byte(n >> 8), byte(n)}
				}
				return []byte{byte(n)}
			}
			for over := 1; over <= 40; over++ {
				simrt.Yield(-90)
				simrt.Refill()
				cache := ipfix.GetCache("/none")
				ipfix.NewDecoder(ip, ipfixMsg(1, ipfixSet(2, tpl))).Decode(cache)
				if p.Known {
					// the id is known with another definition (one octet): data for it
					// must keep decoding under that definition
					k := binary.BigEndian.AppendUint16(nil, p.Smuggled)
					k = append(k, 0, 1, 0, 4, 0, 1)
					ipfix.NewDecoder(ip, ipfixMsg(2, ipfixSet(2, k))).Decode(cache)
				}
				// set 1: one record whose string claims Real+over octets, Real are there
				rec := append([]byte{6}, lenPrefix(p.Real+over, p.Long)...)
				rec = append(rec, make([]byte, p.Real)...)
				set1 := ipfixSet(p.Tpl, rec)
				// set 2: well-framed records whose string values are filled with the pattern
				var body []byte
				for i := 0; i < p.FillRecs; i++ {
					var fill []byte
					for len(fill)+len(pat) <= 180 {
						fill = append(fill, pat...)
					}
					body = append(body, 17)
					body = append(body, lenPrefix(len(fill), false)...)
					body = append(body, fill...)
				}
				set2 := ipfixSet(p.Tpl, body)
				m, _ := ipfix.NewDecoder(ip, ipfixMsg(3, set1, set2)).Decode(cache)
				out.Probes["overrunning-messages"]++
				if m != nil {
					out.Probes["overrunning-message-accepted-in-part"]++
				}
				// probe: data for the smuggled id
				probe := ipfixMsg(4, ipfixSet(p.Smuggled, []byte{192, 0, 2, 1}))
				pm, perr := ipfix.NewDecoder(ip, probe).Decode(cache)
				n := 0
				var ids []uint16
				if pm != nil {
					n = len(pm.DataSets)
					for _, ds := range pm.DataSets {
						for _, f := range ds {
							ids = append(ids, f.ID)
						}
					}
				}
				switch {
				case !p.Known && n > 0:
					findings = append(findings, fmt.Sprintf("template %d was never announced by a template set (its definition only occurs inside string values of data set %d, behind a record whose value overruns its set by %d octets), yet data for it is decoded: %d records, element ids %v (err %v)", p.Smuggled, p.Tpl, over, n, ids, perr))
				case p.Known && (n != 4 || len(ids) != 4 || ids[0] != 4):
					findings = append(findings, fmt.Sprintf("template %d was announced as one one-octet field; after a message whose string values contain another definition of it (behind a record overrunning its set by %d octets) 4 octets of data decode to %d records with element ids %v (err %v)", p.Smuggled, over, n, ids, perr))
				}
				if len(findings) > 0 {
					return
				}
			}
		})
		sim.OnIdle = func() bool { return done }
		sim.Run()
		out.Steps = sim.Seq
		sim.Teardown()
	})
	if pv != nil {
		out.Violations = append(out.Violations, Violation{Prop: prop, Class: "harness-panic", Key: "harness", Msg: fmt.Sprint(pv)})
		return out
	}
	out.Choices = ch.Rec
	out.NonTrivial = true
	out.TraceHash = splitmix(out.PlanHash + out.Steps)
	for _, f := range findings {
		out.Violations = append(out.Violations, Violation{Prop: prop, Class: "template-from-inside-a-value", Key: "ipfix", Msg: f})
	}
	out.Sample = map[string]interface{}{"scenario": "smuggle", "template": p.Tpl, "smuggled": p.Smuggled, "known": p.Known, "probes": out.Probes}
	return out
}

var scSmuggle = defScenario(&Scenario{Name: "smuggle", Gen: genSmuggleFor, Exec: execSmuggle})

func init() { register("C04", scSmuggle, 1) }
