module engine

go 1.26.8
