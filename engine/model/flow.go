package model

import (
	"encoding/binary"
	"fmt"
	"math"
)

// FieldSpec is one field specifier of a template. Len 65535 marks a
// variable-length field (IPFIX only).
type FieldSpec struct {
	ID  uint16 `json:"id"`
	PEN uint32 `json:"pen,omitempty"`
	Len uint16 `json:"len"`
}

// Template is a (options) template definition.
type Template struct {
	ID      uint16      `json:"id"`
	Options bool        `json:"options,omitempty"`
	Scope   []FieldSpec `json:"scope,omitempty"`
	Fields  []FieldSpec `json:"fields"`
}

// AllFields returns scope fields followed by the other fields.
func (t *Template) AllFields() []FieldSpec {
	out := make([]FieldSpec, 0, len(t.Scope)+len(t.Fields))
	out = append(out, t.Scope...)
	return append(out, t.Fields...)
}

// Equal compares definitions.
func (t *Template) Equal(o *Template) bool {
	if t.ID != o.ID || t.Options != o.Options || len(t.Scope) != len(o.Scope) || len(t.Fields) != len(o.Fields) {
		return false
	}
	for i := range t.Scope {
		if t.Scope[i] != o.Scope[i] {
			return false
		}
	}
	for i := range t.Fields {
		if t.Fields[i] != o.Fields[i] {
			return false
		}
	}
	return true
}

// FieldVal is the wire content of one field of one record. Long selects the
// 3-octet length prefix for variable-length fields.
type FieldVal struct {
	Raw  []byte `json:"raw"`
	Long bool   `json:"long,omitempty"`
}

// Record is one data record: values for scope fields then fields.
type Record struct {
	Vals []FieldVal `json:"vals"`
}

// Set kinds.
const (
	SetTemplate = "template"
	SetOptions  = "options"
	SetData     = "data"
	SetRaw      = "raw" // arbitrary id/body (reserved ids, garbage)
)

// Set is one set / flowset of a message.
type Set struct {
	Kind    string     `json:"kind"`
	Tpls    []Template `json:"tpls,omitempty"`
	TplID   uint16     `json:"tpl_id,omitempty"`
	Recs    []Record   `json:"recs,omitempty"`
	Pad     int        `json:"pad,omitempty"`
	RawID   uint16     `json:"raw_id,omitempty"`
	RawBody []byte     `json:"raw_body,omitempty"`
}

// Msg is one IPFIX message or NetFlow v9 export packet in abstract form.
type Msg struct {
	Proto  string `json:"proto"` // "ipfix" | "nf9"
	Time   uint32 `json:"time"`  // export time / unix secs
	Seq    uint32 `json:"seq"`
	Domain uint32 `json:"domain"` // observation domain / source id
	SysUp  uint32 `json:"sysup,omitempty"`
	Sets   []Set  `json:"sets"`
}

func put16(b []byte, v uint16) []byte { return append(b, byte(v>>8), byte(v)) }
func put32(b []byte, v uint32) []byte { return append(b, byte(v>>24), byte(v>>16), byte(v>>8), byte(v)) }

func encSpecIPFIX(b []byte, f FieldSpec) []byte {
	if f.PEN != 0 {
		b = put16(b, f.ID|0x8000)
		b = put16(b, f.Len)
		return put32(b, f.PEN)
	}
	b = put16(b, f.ID)
	return put16(b, f.Len)
}

func encRecord(b []byte, t *Template, r *Record, ipfix bool) []byte {
	specs := t.AllFields()
	for i, v := range r.Vals {
		if ipfix && i < len(specs) && specs[i].Len == 65535 {
			if v.Long || len(v.Raw) >= 255 {
				b = append(b, 255)
				b = put16(b, uint16(len(v.Raw)))
			} else {
				b = append(b, byte(len(v.Raw)))
			}
		}
		b = append(b, v.Raw...)
	}
	return b
}

// MinRecLen is the smallest number of octets a record of t can occupy on the wire.
func MinRecLen(t *Template, ipfix bool) int {
	n := 0
	for _, f := range t.AllFields() {
		if f.Len == 65535 && ipfix {
			n++
		} else {
			n += int(f.Len)
		}
	}
	return n
}

// EncodeRecords renders records of t as they appear inside a data set.
func EncodeRecords(t *Template, recs []Record, ipfix bool) []byte {
	var b []byte
	for i := range recs {
		b = encRecord(b, t, &recs[i], ipfix)
	}
	return b
}

// SetOffsets records where each set starts in the encoded message.
type SetOffsets struct {
	Start []int // offset of each set header
	End   []int
}

// Encode renders the message; tpl resolves the template a data set was
// generated for (the encoder needs it for variable-length prefixes).
func (m *Msg) Encode(tpl func(id uint16) *Template) ([]byte, SetOffsets) {
	var offs SetOffsets
	ipfix := m.Proto == "ipfix"
	var b []byte
	if ipfix {
		b = put16(b, 10)
		b = put16(b, 0) // length, patched
		b = put32(b, m.Time)
		b = put32(b, m.Seq)
		b = put32(b, m.Domain)
	} else {
		b = put16(b, 9)
		b = put16(b, 0) // count, patched
		b = put32(b, m.SysUp)
		b = put32(b, m.Time)
		b = put32(b, m.Seq)
		b = put32(b, m.Domain)
	}
	count := 0
	// templates announced earlier in this message take precedence, in order
	local := map[uint16]*Template{}
	resolve := func(id uint16) *Template {
		if t, ok := local[id]; ok {
			return t
		}
		if tpl == nil {
			return nil
		}
		return tpl(id)
	}
	for si := range m.Sets {
		s := m.Sets[si]
		start := len(b)
		offs.Start = append(offs.Start, start)
		var id uint16
		var body []byte
		switch s.Kind {
		case SetTemplate:
			if ipfix {
				id = 2
			} else {
				id = 0
			}
			for _, t := range s.Tpls {
				body = put16(body, t.ID)
				body = put16(body, uint16(len(t.Fields)))
				for _, f := range t.Fields {
					if ipfix {
						body = encSpecIPFIX(body, f)
					} else {
						body = put16(body, f.ID)
						body = put16(body, f.Len)
					}
				}
				count++
			}
		case SetOptions:
			if ipfix {
				id = 3
				for _, t := range s.Tpls {
					body = put16(body, t.ID)
					body = put16(body, uint16(len(t.Scope)+len(t.Fields)))
					body = put16(body, uint16(len(t.Scope)))
					for _, f := range t.AllFields() {
						body = encSpecIPFIX(body, f)
					}
					count++
				}
			} else {
				id = 1
				for _, t := range s.Tpls {
					body = put16(body, t.ID)
					body = put16(body, uint16(4*len(t.Scope)))
					body = put16(body, uint16(4*len(t.Fields)))
					for _, f := range t.AllFields() {
						body = put16(body, f.ID)
						body = put16(body, f.Len)
					}
					count++
				}
			}
		case SetData:
			id = s.TplID
			t := resolve(s.TplID)
			for i := range s.Recs {
				if t != nil {
					body = encRecord(body, t, &s.Recs[i], ipfix)
				} else {
					for _, v := range s.Recs[i].Vals {
						body = append(body, v.Raw...)
					}
				}
				count++
			}
		case SetRaw:
			id = s.RawID
			body = append(body, s.RawBody...)
		}
		if s.Kind == SetTemplate || s.Kind == SetOptions {
			for ti := range m.Sets[si].Tpls {
				local[m.Sets[si].Tpls[ti].ID] = &m.Sets[si].Tpls[ti]
			}
		}
		for i := 0; i < s.Pad; i++ {
			body = append(body, 0)
		}
		b = put16(b, id)
		b = put16(b, uint16(4+len(body)))
		b = append(b, body...)
		offs.End = append(offs.End, len(b))
	}
	if ipfix {
		binary.BigEndian.PutUint16(b[2:], uint16(len(b)))
	} else {
		binary.BigEndian.PutUint16(b[2:], uint16(count))
	}
	return b, offs
}

// ---------------------------------------------------------------- expected output

// ExpVal is the value a field must decode to, by abstract type.
type ExpVal struct {
	Kind string  `json:"kind"` // uint int f32 f64 bool mac ip string bytes
	U    uint64  `json:"u,omitempty"`
	I    int64   `json:"i,omitempty"`
	F    float64 `json:"f,omitempty"`
	NaN  bool    `json:"nan,omitempty"`
	B    []byte  `json:"b,omitempty"`
}

// ExpField is one decoded field.
type ExpField struct {
	ID  uint16 `json:"id"`
	PEN uint32 `json:"pen,omitempty"`
	Val ExpVal `json:"val"`
}

// ExpMsg is the observable result of decoding one datagram.
type ExpMsg struct {
	Proto   string            `json:"proto"`
	Agent   []byte            `json:"agent"` // exporter address octets
	Header  map[string]uint64 `json:"header"`
	Records [][]ExpField      `json:"records"`
	// diagnostics
	UnknownSets int `json:"unknown_sets,omitempty"` // data sets whose template was not known
	ShortTail   int `json:"short_tail,omitempty"`   // sets ending with a record of <= 4 octets
	EmptyTplSets int `json:"empty_tpl_sets,omitempty"` // data sets whose latest template definition describes empty records
	Mismatched  int `json:"mismatched,omitempty"`   // records generated for another definition of the template id
}

func beUint(b []byte) uint64 {
	var v uint64
	for _, x := range b {
		v = v<<8 | uint64(x)
	}
	return v
}

// Interpret gives the value of raw octets under an abstract data type: the
// typed value if at least the type's size is present (the leading octets are
// used), raw octets otherwise.
func Interpret(raw []byte, typ string) ExpVal {
	nat := NaturalLen(typ)
	if nat > 0 && len(raw) < nat {
		return ExpVal{Kind: "bytes", B: raw}
	}
	switch typ {
	case "unsigned8", "unsigned16", "unsigned32", "unsigned64", "dateTimeSeconds", "dateTimeMilliseconds", "dateTimeMicroseconds", "dateTimeNanoseconds":
		return ExpVal{Kind: "uint", U: beUint(raw[:nat])}
	case "signed8":
		return ExpVal{Kind: "int", I: int64(int8(raw[0]))}
	case "signed16":
		return ExpVal{Kind: "int", I: int64(int16(beUint(raw[:2])))}
	case "signed32":
		return ExpVal{Kind: "int", I: int64(int32(beUint(raw[:4])))}
	case "signed64":
		return ExpVal{Kind: "int", I: int64(beUint(raw[:8]))}
	case "float32":
		f := float64(math.Float32frombits(uint32(beUint(raw[:4]))))
		if math.IsNaN(f) || math.IsInf(f, 0) {
			return ExpVal{Kind: "f32", NaN: true, F: 0, U: beUint(raw[:4])}
		}
		return ExpVal{Kind: "f32", F: f}
	case "float64":
		f := math.Float64frombits(beUint(raw[:8]))
		if math.IsNaN(f) || math.IsInf(f, 0) {
			return ExpVal{Kind: "f64", NaN: true, U: beUint(raw[:8])}
		}
		return ExpVal{Kind: "f64", F: f}
	case "boolean":
		// RFC 7011 6.1.5: 1 = true, 2 = false
		return ExpVal{Kind: "bool", U: b2u(raw[0] == 1)}
	case "macAddress":
		return ExpVal{Kind: "mac", B: raw}
	case "ipv4Address", "ipv6Address":
		return ExpVal{Kind: "ip", B: raw}
	case "string":
		return ExpVal{Kind: "string", B: raw}
	}
	return ExpVal{Kind: "bytes", B: raw}
}

func b2u(b bool) uint64 {
	if b {
		return 1
	}
	return 0
}

// CacheKey is the template cache key of the model: exporter address octets
// and template id.
func CacheKey(addr []byte, id uint16) string {
	return fmt.Sprintf("%x/%d", addr, id)
}

// TplCache is the template cache model: latest announcement wins.
type TplCache map[string]*Template

// Clone copies the cache (templates are immutable once stored).
func (c TplCache) Clone() TplCache {
	o := TplCache{}
	for k, v := range c {
		o[k] = v
	}
	return o
}

// Expect computes what decoding the message from exporter addr must yield,
// given the templates announced so far (cache is updated with the message's
// own announcements, in order). hdrLen is the encoded length (IPFIX header).
func Expect(m *Msg, addr []byte, cache TplCache, im InfoModel, encodedLen int) *ExpMsg {
	e := &ExpMsg{Proto: m.Proto, Agent: addr, Header: map[string]uint64{}}
	if m.Proto == "ipfix" {
		e.Header["Version"] = 10
		e.Header["Length"] = uint64(encodedLen)
		e.Header["ExportTime"] = uint64(m.Time)
		e.Header["SequenceNo"] = uint64(m.Seq)
		e.Header["DomainID"] = uint64(m.Domain)
	} else {
		cnt := 0
		for _, s := range m.Sets {
			switch s.Kind {
			case SetTemplate, SetOptions:
				cnt += len(s.Tpls)
			case SetData:
				cnt += len(s.Recs)
			}
		}
		e.Header["Version"] = 9
		e.Header["Count"] = uint64(cnt)
		e.Header["SysUpTime"] = uint64(m.SysUp)
		e.Header["UNIXSecs"] = uint64(m.Time)
		e.Header["SeqNum"] = uint64(m.Seq)
		e.Header["SrcID"] = uint64(m.Domain)
	}
	for si := range m.Sets {
		s := &m.Sets[si]
		switch s.Kind {
		case SetTemplate, SetOptions:
			for i := range s.Tpls {
				t := s.Tpls[i]
				cache[CacheKey(addr, t.ID)] = &t
			}
		case SetRaw:
			// a raw set whose id is a template id is a data set on the wire: under
			// a template that describes empty records it yields nothing (like a
			// reserved id or an unknown template); under any other known template
			// its octets would be decoded as records the model has no values for
			if s.RawID > 255 {
				if t, ok := cache[CacheKey(addr, s.RawID)]; ok && t != nil {
					// shorter than the shortest record of the template: all padding
					if ml := MinRecLen(t, m.Proto == "ipfix"); ml > 0 && len(s.RawBody)+s.Pad >= ml {
						e.Mismatched++
					}
				}
			}
		case SetData:
			t, ok := cache[CacheKey(addr, s.TplID)]
			if !ok {
				e.UnknownSets++
				continue
			}
			if MinRecLen(t, m.Proto == "ipfix") == 0 {
				// the latest definition describes empty records: the set is
				// skipped whatever it carries
				e.EmptyTplSets++
				continue
			}
			specs := t.AllFields()
			decodable := true
			for _, f := range specs {
				pen := f.PEN
				if m.Proto != "ipfix" {
					pen = 0
				}
				if _, ok := im[ElemKey{pen, f.ID}]; !ok {
					decodable = false
				}
			}
			if !decodable {
				continue
			}
			for ri := range s.Recs {
				r := &s.Recs[ri]
				if len(r.Vals) != len(specs) {
					// the record was generated for another definition of this
					// template id (a re-announcement in flight): no expectation
					e.Mismatched++
					continue
				}
				var fields []ExpField
				recLen := 0
				for i, f := range specs {
					pen := f.PEN
					if m.Proto != "ipfix" {
						pen = 0
					}
					el := im[ElemKey{pen, f.ID}]
					raw := r.Vals[i].Raw
					recLen += len(raw)
					if m.Proto == "ipfix" && f.Len == 65535 {
						recLen++
						if r.Vals[i].Long || len(raw) >= 255 {
							recLen += 2
						}
					}
					fields = append(fields, ExpField{ID: f.ID, PEN: pen, Val: Interpret(raw, el.Type)})
				}
				if ri == len(s.Recs)-1 && recLen+s.Pad <= 4 {
					e.ShortTail++
				}
				e.Records = append(e.Records, fields)
			}
		}
	}
	return e
}
