package model

import (
	"math"
	"math/rand"
)

// GenOpts selects what the workload generator may produce.
type GenOpts struct {
	Proto       string // "ipfix" | "nf9"
	Enterprise  bool   // may use the enterprise elements (need ipfix.elements installed)
	HardStrings bool   // quotes, backslashes, control and non-UTF-8 octets in strings
	NonFinite   bool   // NaN / Inf floats
	VarLen      bool   // 65535 marker (IPFIX)
	Reduced     bool   // reduced-length encodings
	MaxFields   int
	MaxSize     int // octets per datagram
	TinyRecords bool // favour records of 1..4 octets
	Unknowns    bool // may reference elements missing from the information model
}

// Gen generates workloads from a PRNG.
type Gen struct {
	R     *rand.Rand
	IM    InfoModel // what the decoder under test knows
	elems []Element // candidate elements in deterministic order
	O     GenOpts
}

// NewGen builds a generator over the information model.
func NewGen(r *rand.Rand, im InfoModel, o GenOpts) *Gen {
	g := &Gen{R: r, IM: im, O: o}
	for _, k := range im.SortedKeys() {
		e := im[k]
		if k.PEN != 0 && (!o.Enterprise || o.Proto != "ipfix") {
			continue
		}
		g.elems = append(g.elems, e)
	}
	if g.O.MaxFields <= 0 {
		g.O.MaxFields = 12
	}
	if g.O.MaxSize <= 0 {
		g.O.MaxSize = 1400
	}
	return g
}

func (g *Gen) pickElem() Element {
	// bias towards a mix of types: pick a type class first half of the time
	if g.R.Intn(2) == 0 {
		want := []string{"string", "octetArray", "ipv4Address", "ipv6Address", "macAddress", "float64", "boolean",
			"unsigned8", "unsigned16", "unsigned32", "unsigned64", "dateTimeSeconds", "dateTimeMilliseconds",
			"signed8", "signed16", "signed32", "signed64", "float32"}[g.R.Intn(18)]
		start := g.R.Intn(len(g.elems))
		for i := 0; i < len(g.elems); i++ {
			e := g.elems[(start+i)%len(g.elems)]
			if e.Type == want {
				return e
			}
		}
	}
	return g.elems[g.R.Intn(len(g.elems))]
}

func (g *Gen) specFor(e Element) FieldSpec {
	f := FieldSpec{ID: e.ID, PEN: e.PEN}
	nat := NaturalLen(e.Type)
	switch {
	case nat > 0:
		f.Len = uint16(nat)
		if g.O.Reduced && nat > 1 && g.R.Intn(8) == 0 {
			f.Len = uint16(1 + g.R.Intn(nat-1))
		}
	case VarLenCapable(e.Type):
		if g.O.VarLen && g.O.Proto == "ipfix" && g.R.Intn(3) == 0 {
			f.Len = 65535
		} else {
			f.Len = uint16(g.R.Intn(24))
			if g.R.Intn(10) == 0 {
				f.Len = uint16(g.R.Intn(300))
			}
		}
	default: // lists / unknown types: opaque octets
		f.Len = uint16(1 + g.R.Intn(16))
	}
	return f
}

// Template generates a template with the given id.
func (g *Gen) Template(id uint16) Template {
	t := Template{ID: id}
	n := 1 + g.R.Intn(g.O.MaxFields)
	if g.O.TinyRecords && g.R.Intn(2) == 0 {
		// a single small field: records of 1..4 octets
		for {
			e := g.pickElem()
			nat := NaturalLen(e.Type)
			if nat >= 1 && nat <= 4 {
				t.Fields = []FieldSpec{{ID: e.ID, PEN: e.PEN, Len: uint16(nat)}}
				return t
			}
		}
	}
	if g.R.Intn(4) == 0 {
		t.Options = true
		ns := 1 + g.R.Intn(3)
		for i := 0; i < ns; i++ {
			t.Scope = append(t.Scope, g.specFor(g.pickElem()))
		}
	}
	for i := 0; i < n; i++ {
		t.Fields = append(t.Fields, g.specFor(g.pickElem()))
	}
	// a record must occupy at least one octet
	if g.MinRecLen(&t) == 0 {
		for {
			e := g.pickElem()
			if nat := NaturalLen(e.Type); nat > 0 {
				t.Fields = append(t.Fields, FieldSpec{ID: e.ID, PEN: e.PEN, Len: uint16(nat)})
				break
			}
		}
	}
	return t
}

// MinRecLen is the smallest number of octets a record of t can occupy.
func (g *Gen) MinRecLen(t *Template) int {
	n := 0
	for _, f := range t.AllFields() {
		if f.Len == 65535 && g.O.Proto == "ipfix" {
			n++
		} else {
			n += int(f.Len)
		}
	}
	return n
}

func (g *Gen) typeOf(f FieldSpec) string {
	pen := f.PEN
	if g.O.Proto != "ipfix" {
		pen = 0
	}
	return g.IM[ElemKey{pen, f.ID}].Type
}

var hardBytes = []byte{'"', '\\', '\n', '\r', '\t', 0, 1, 0x1f, 0x7f, 0x80, 0xff, 0xc3, 0x28, '/', '<', '>', '&', 0xe2, 0x82, 0xac, '%', 'd', 's'}

func (g *Gen) bytesN(n int) []byte {
	b := make([]byte, n)
	for i := range b {
		b[i] = byte(g.R.Intn(256))
	}
	return b
}

func (g *Gen) intBytes(n int) []byte {
	b := make([]byte, n)
	switch g.R.Intn(6) {
	case 0: // zero
	case 1:
		for i := range b {
			b[i] = 0xff
		}
	case 2:
		b[0] = 0x80
	case 3:
		b[0] = 0x7f
		for i := 1; i < n; i++ {
			b[i] = 0xff
		}
	default:
		for i := range b {
			b[i] = byte(g.R.Intn(256))
		}
	}
	return b
}

// Value generates the wire octets of one field.
func (g *Gen) Value(f FieldSpec) FieldVal {
	typ := g.typeOf(f)
	n := int(f.Len)
	v := FieldVal{}
	if f.Len == 65535 && g.O.Proto == "ipfix" {
		n = g.R.Intn(20)
		switch g.R.Intn(12) {
		case 0:
			n = 0
		case 1:
			n = 254
		case 2:
			n = 255 + g.R.Intn(40)
		}
		v.Long = g.R.Intn(5) == 0
	}
	switch typ {
	case "string":
		b := make([]byte, n)
		for i := range b {
			if g.O.HardStrings && g.R.Intn(4) == 0 {
				b[i] = hardBytes[g.R.Intn(len(hardBytes))]
			} else {
				b[i] = byte('a' + g.R.Intn(26))
				if g.R.Intn(8) == 0 {
					b[i] = ' '
				}
			}
		}
		v.Raw = b
	case "boolean":
		v.Raw = g.bytesN(n)
		if n > 0 {
			v.Raw[0] = byte(1 + g.R.Intn(2))
		}
	case "float32", "float64":
		nat := NaturalLen(typ)
		for {
			v.Raw = g.bytesN(n)
			if n < nat {
				break
			}
			var f float64
			if typ == "float32" {
				f = float64(math.Float32frombits(uint32(beUint(v.Raw[:4]))))
			} else {
				f = math.Float64frombits(beUint(v.Raw[:8]))
			}
			nonfin := math.IsNaN(f) || math.IsInf(f, 0)
			if g.O.NonFinite && g.R.Intn(6) == 0 {
				// force a non-finite value
				if typ == "float32" {
					copy(v.Raw, []byte{0x7f, 0xc0, 0, 1})
					if g.R.Intn(2) == 0 {
						copy(v.Raw, []byte{0xff, 0x80, 0, 0})
					}
				} else {
					copy(v.Raw, []byte{0x7f, 0xf8, 0, 0, 0, 0, 0, 1})
					if g.R.Intn(2) == 0 {
						copy(v.Raw, []byte{0x7f, 0xf0, 0, 0, 0, 0, 0, 0})
					}
				}
				break
			}
			if !nonfin {
				break
			}
		}
	case "unsigned8", "unsigned16", "unsigned32", "unsigned64", "signed8", "signed16", "signed32", "signed64",
		"dateTimeSeconds", "dateTimeMilliseconds", "dateTimeMicroseconds", "dateTimeNanoseconds":
		if n > 0 {
			v.Raw = g.intBytes(n)
		} else {
			v.Raw = []byte{}
		}
	default:
		v.Raw = g.bytesN(n)
	}
	if v.Raw == nil {
		v.Raw = []byte{}
	}
	return v
}

// Record generates one record for t.
func (g *Gen) Record(t *Template) Record {
	var r Record
	for _, f := range t.AllFields() {
		r.Vals = append(r.Vals, g.Value(f))
	}
	return r
}

// RecLen is the encoded length of r under t.
func (g *Gen) RecLen(t *Template, r *Record) int {
	n := 0
	specs := t.AllFields()
	for i, v := range r.Vals {
		n += len(v.Raw)
		if specs[i].Len == 65535 && g.O.Proto == "ipfix" {
			n++
			if v.Long || len(v.Raw) >= 255 {
				n += 2
			}
		}
	}
	return n
}

// TemplateSetSize is the encoded size of a template's definition.
func (g *Gen) tplSize(t *Template) int {
	n := 4
	if t.Options {
		n = 6
	}
	for _, f := range t.AllFields() {
		n += 4
		if f.PEN != 0 && g.O.Proto == "ipfix" {
			n += 4
		}
	}
	return n
}

func (g *Gen) pad(bodyLen, minRec int, template bool) int {
	if g.O.Proto == "ipfix" {
		p := g.R.Intn(4)
		if g.R.Intn(2) == 0 {
			p = 0
		}
		if !template && p >= minRec {
			p = 0
		}
		return p
	}
	// v9: align to 4 octets unless that could be taken for a record
	p := (4 - bodyLen%4) % 4
	if !template && p >= minRec {
		p = 0
	}
	return p
}

// TemplateSets builds the sets announcing tpls (plain and options templates
// go to separate sets, several templates may share a set).
func (g *Gen) TemplateSets(tpls []Template) []Set {
	var sets []Set
	var plain, opts []Template
	for _, t := range tpls {
		if t.Options {
			opts = append(opts, t)
		} else {
			plain = append(plain, t)
		}
	}
	mk := func(kind string, ts []Template) {
		for len(ts) > 0 {
			n := 1 + g.R.Intn(len(ts))
			s := Set{Kind: kind, Tpls: append([]Template(nil), ts[:n]...)}
			body := 0
			for i := range s.Tpls {
				body += g.tplSize(&s.Tpls[i])
			}
			s.Pad = g.pad(body, 0, true)
			sets = append(sets, s)
			ts = ts[n:]
		}
	}
	mk(SetTemplate, plain)
	mk(SetOptions, opts)
	if len(sets) > 1 && g.R.Intn(2) == 0 {
		sets[0], sets[len(sets)-1] = sets[len(sets)-1], sets[0]
	}
	return sets
}

// DataSet builds a data set for t with up to maxRecs records within budget
// octets (at least one record).
func (g *Gen) DataSet(t *Template, maxRecs, budget int) (Set, int) {
	s := Set{Kind: SetData, TplID: t.ID}
	size := 4
	for i := 0; i < maxRecs; i++ {
		r := g.Record(t)
		l := g.RecLen(t, &r)
		if i > 0 && size+l > budget {
			break
		}
		s.Recs = append(s.Recs, r)
		size += l
	}
	s.Pad = g.pad(size-4, g.MinRecLen(t), false)
	return s, size + s.Pad
}

// UndecodableSet builds a set vFlow cannot decode: a reserved id, or an
// unknown template id.
func (g *Gen) UndecodableSet(unknownTplID uint16) Set {
	s := Set{Kind: SetRaw}
	if g.R.Intn(2) == 0 {
		s.RawID = uint16(4 + g.R.Intn(252))
	} else {
		s.RawID = unknownTplID
	}
	n := g.R.Intn(40)
	s.RawBody = g.bytesN(n)
	return s
}
