package model

import "math/rand"

// Boundary values written over length / count / type fields.
var boundary32 = []uint32{0, 1, 2, 3, 4, 5, 7, 8, 11, 12, 13, 15, 16, 17, 20, 24, 28, 255, 256, 1500, 1501, 65535, 65536, 1 << 31, 1<<32 - 1, 1<<32 - 4, 1<<32 - 8}

// Boundary32 picks a boundary value.
func Boundary32(r *rand.Rand) uint32 { return boundary32[r.Intn(len(boundary32))] }

// DegenerateTemplate builds templates that are legal on the wire but unusual:
// zero-length fields, no fields, oversized fields, many fields, unknown
// elements.
func (g *Gen) DegenerateTemplate(id uint16) Template {
	t := Template{ID: id}
	switch g.R.Intn(7) {
	case 0: // every field has length zero
		n := 1 + g.R.Intn(4)
		for i := 0; i < n; i++ {
			e := g.pickElem()
			t.Fields = append(t.Fields, FieldSpec{ID: e.ID, PEN: e.PEN, Len: 0})
		}
	case 1: // no fields at all
	case 2: // a fixed-size type with the variable-length marker
		for {
			e := g.pickElem()
			if NaturalLen(e.Type) > 0 {
				t.Fields = []FieldSpec{{ID: e.ID, PEN: e.PEN, Len: 65535}}
				break
			}
		}
	case 3: // many fields
		n := 100 + g.R.Intn(250)
		for i := 0; i < n; i++ {
			e := g.pickElem()
			t.Fields = append(t.Fields, FieldSpec{ID: e.ID, PEN: e.PEN, Len: uint16(g.R.Intn(3))})
		}
	case 4: // element missing from the information model
		t.Fields = []FieldSpec{{ID: uint16(20000 + g.R.Intn(1000)), Len: 4}}
	case 5: // options template whose scope has zero length fields only
		t.Options = true
		e := g.pickElem()
		t.Scope = []FieldSpec{{ID: e.ID, PEN: e.PEN, Len: 0}}
		e = g.pickElem()
		t.Fields = []FieldSpec{{ID: e.ID, PEN: e.PEN, Len: 0}}
	default: // oversized fixed fields
		e := g.pickElem()
		t.Fields = []FieldSpec{{ID: e.ID, PEN: e.PEN, Len: uint16(1000 + g.R.Intn(60000))}}
	}
	return t
}

// HostileSets returns sets of reserved / meaningless ids with random bodies.
func (g *Gen) HostileSets() []Set {
	var out []Set
	n := 1 + g.R.Intn(3)
	for i := 0; i < n; i++ {
		s := Set{Kind: SetRaw, RawID: uint16([]int{0, 1, 2, 3, 4, 5, 255, 256, 300, 65535}[g.R.Intn(10)])}
		s.RawBody = g.bytesN(g.R.Intn(64))
		if g.R.Intn(3) == 0 {
			s.RawBody = make([]byte, g.R.Intn(64)) // zeros
		}
		out = append(out, s)
	}
	return out
}

// DataForTemplate builds a data set for any template, also degenerate ones
// (records are random octets of the declared lengths, capped).
func (g *Gen) DataForTemplate(t *Template, nrec int) Set {
	s := Set{Kind: SetData, TplID: t.ID}
	for i := 0; i < nrec; i++ {
		var r Record
		for _, f := range t.AllFields() {
			n := int(f.Len)
			if n == 65535 {
				n = g.R.Intn(8)
			}
			if n > 64 {
				n = 64
			}
			r.Vals = append(r.Vals, FieldVal{Raw: g.bytesN(n)})
		}
		s.Recs = append(s.Recs, r)
	}
	if len(s.Recs) == 0 || g.R.Intn(2) == 0 {
		// make sure the set has a body even when records are empty
		s.Pad = 1 + g.R.Intn(12)
	}
	return s
}

// GenSFHostile derives a structurally hostile sFlow datagram.
func GenSFHostile(r *rand.Rand, seq, subID uint32, maxSize int) *SFDatagram {
	d := GenSFDatagram(r, seq, subID, maxSize)
	if len(d.Samples) == 0 || r.Intn(6) == 0 {
		// make sure there is a flow sample with the records of interest
		s := SFSample{Format: 1, Seq: rnd32(r), Rate: rnd32(r)}
		s.Records = append(s.Records, SFRecord{Format: 1, Raw: GenSFPacket(r), FrameLen: rnd32(r)})
		s.Records = append(s.Records, SFRecord{Format: 1002, NextHop: rndBytes(r, 4), Vals: []uint64{1, 2}})
		d.Samples = append(d.Samples, s)
	}
	for i := range d.Samples {
		s := &d.Samples[i]
		for j := range s.Records {
			rec := &s.Records[j]
			if rec.Raw != nil && rec.Raw.Proto == 1 && r.Intn(4) == 0 {
				// stacked 802.1Q tags, possibly captured only in part
				if rec.Raw.Vlan < 0 {
					rec.Raw.Vlan = r.Intn(4096)
				}
				rec.Raw.MoreTags = 1 + r.Intn(3)
			}
			if rec.Raw != nil && !rec.Raw.IPv6 && r.Intn(3) == 0 {
				// IPv4 options: any header length, possibly captured only in part
				rec.Raw.IHL = uint8(r.Intn(16))
			}
			oddL4 := false
			if rec.Raw != nil && r.Intn(4) == 0 {
				// protocols behind the network header that are not TCP, UDP or ICMP:
				// extension headers, tunnels, routing protocols
				rec.Raw.L4 = []uint8{0, 43, 44, 50, 51, 59, 60, 135, 47, 4, 41, 132, 2, 89}[r.Intn(14)]
				oddL4 = true
			}
			switch {
			case oddL4 && r.Intn(2) == 0:
				// captured up to somewhere in the first octets behind the network header
				l3 := len(rec.Raw.Bytes()) - 4 - len(rec.Raw.Payload)
				rec.CutP1 = 1 + l3 + r.Intn(13)
			case rec.Raw != nil && r.Intn(6) == 0:
				// the sampled header claims a length of its own choosing - alone, or
				// together with the record that carries it
				rec.HdrLenP1 = 1 + Boundary32(r)
				if r.Intn(2) == 0 {
					rec.DeclLenP1 = 1 + Boundary32(r)
					if r.Intn(2) == 0 {
						rec.DeclLenP1 = rec.HdrLenP1 + 16 + uint32(r.Intn(3))*4
					}
				}
			case rec.Raw != nil && r.Intn(2) == 0:
				n := len(rec.Raw.Bytes())
				if r.Intn(2) == 0 && n > 20 {
					rec.CutP1 = 1 + 10 + r.Intn(12+4*rec.Raw.MoreTags) // around the Ethernet / 802.1Q boundary
				} else {
					rec.CutP1 = 1 + r.Intn(n+1)
				}
			case rec.Format == 1002 && r.Intn(2) == 0:
				rec.DeclLenP1 = 1 + uint32(r.Intn(16))
				if r.Intn(4) == 0 {
					rec.DeclLenP1 = 1 + Boundary32(r)
				}
			case r.Intn(6) == 0:
				rec.DeclLenP1 = 1 + Boundary32(r)
			}
		}
		if r.Intn(8) == 0 {
			s.RecCountP1 = 1 + Boundary32(r)
		}
		if r.Intn(8) == 0 {
			s.DeclLenP1 = 1 + Boundary32(r)
		}
	}
	if r.Intn(8) == 0 {
		d.SampleCountP1 = 1 + Boundary32(r)
	}
	if r.Intn(20) == 0 {
		d.Version = uint32(r.Intn(7))
	}
	return d
}
