package model

import (
	"bytes"
	"encoding/hex"
	"encoding/json"
	"fmt"
	"io"
	"math"
	"math/big"
	"net/netip"
	"strconv"
	"strings"
	"unicode/utf8"
)

// ParseJSONStrict parses exactly one JSON document (no trailing bytes other
// than white space), keeping numbers exact.
func ParseJSONStrict(b []byte) (interface{}, error) {
	dec := json.NewDecoder(bytes.NewReader(b))
	dec.UseNumber()
	var v interface{}
	if err := dec.Decode(&v); err != nil {
		return nil, err
	}
	if _, err := dec.Token(); err != io.EOF {
		return nil, fmt.Errorf("trailing data after JSON document")
	}
	return v, nil
}

func numEq(v interface{}, want *big.Int) bool {
	n, ok := v.(json.Number)
	if !ok {
		return false
	}
	// accept integer literals and float literals with an integral value
	if bi, ok := new(big.Int).SetString(n.String(), 10); ok {
		return bi.Cmp(want) == 0
	}
	r, ok := new(big.Rat).SetString(n.String())
	if !ok || !r.IsInt() {
		return false
	}
	return r.Num().Cmp(want) == 0
}

func uintEq(v interface{}, want uint64) bool { return numEq(v, new(big.Int).SetUint64(want)) }
func intEq(v interface{}, want int64) bool   { return numEq(v, big.NewInt(want)) }

// AddrText compares an address rendered as text with address octets,
// accepting IPv4-mapped forms of the same address.
func AddrText(s string, want []byte) bool {
	a, err := netip.ParseAddr(s)
	if err != nil {
		return false
	}
	w, ok := netip.AddrFromSlice(want)
	if !ok {
		return false
	}
	return a.Unmap() == w.Unmap()
}

// sanitize replaces every invalid UTF-8 byte by U+FFFD, which is what any
// JSON reader yields for such input.
func sanitize(b []byte) string {
	var sb strings.Builder
	for len(b) > 0 {
		r, n := utf8.DecodeRune(b)
		if r == utf8.RuneError && n == 1 {
			sb.WriteRune(utf8.RuneError)
		} else {
			sb.WriteRune(r)
		}
		b = b[n:]
	}
	return sb.String()
}

func macEq(s string, want []byte) bool {
	parts := strings.FieldsFunc(s, func(r rune) bool { return r == ':' || r == '-' })
	if len(parts) != len(want) {
		return false
	}
	for i, p := range parts {
		v, err := strconv.ParseUint(p, 16, 8)
		if err != nil || byte(v) != want[i] {
			return false
		}
	}
	return true
}

// ValEq compares a parsed JSON value with the expected value, semantically.
func ValEq(v interface{}, e ExpVal) bool {
	switch e.Kind {
	case "uint":
		return uintEq(v, e.U)
	case "int":
		return intEq(v, e.I)
	case "f32", "f64":
		if e.NaN {
			// JSON has no NaN/Inf number: any non-number rendering is accepted
			switch v.(type) {
			case string, nil:
				return true
			}
			return false
		}
		n, ok := v.(json.Number)
		if !ok {
			return false
		}
		f, err := strconv.ParseFloat(n.String(), 64)
		if err != nil {
			return false
		}
		if e.Kind == "f32" {
			return float32(f) == float32(e.F)
		}
		return f == e.F || (math.Abs(f-e.F) == 0)
	case "bool":
		b, ok := v.(bool)
		return ok && b == (e.U == 1)
	case "mac":
		s, ok := v.(string)
		return ok && macEq(s, e.B)
	case "ip":
		s, ok := v.(string)
		return ok && AddrText(s, e.B)
	case "string":
		s, ok := v.(string)
		return ok && s == sanitize(e.B)
	case "bytes":
		s, ok := v.(string)
		if !ok {
			return false
		}
		if strings.HasPrefix(s, "0x") {
			d, err := hex.DecodeString(s[2:])
			return err == nil && bytes.Equal(d, e.B)
		}
		return false
	}
	return false
}

// CompareFlowJSON checks a published IPFIX / NetFlow v9 message against the
// expectation. It returns a list of differences (empty: equal).
func CompareFlowJSON(exp *ExpMsg, payload []byte) []string {
	v, err := ParseJSONStrict(payload)
	if err != nil {
		return []string{"invalid JSON: " + err.Error()}
	}
	return CompareFlowParsed(exp, v)
}

// CompareFlowParsed is CompareFlowJSON on an already parsed document.
func CompareFlowParsed(exp *ExpMsg, v interface{}) []string {
	var diffs []string
	add := func(f string, a ...interface{}) {
		if len(diffs) < 8 {
			diffs = append(diffs, fmt.Sprintf(f, a...))
		}
	}
	obj, ok := v.(map[string]interface{})
	if !ok {
		return []string{"top level is not an object"}
	}
	if s, ok := obj["AgentID"].(string); !ok || !AddrText(s, exp.Agent) {
		add("AgentID %v != %x", obj["AgentID"], exp.Agent)
	}
	hdr, ok := obj["Header"].(map[string]interface{})
	if !ok {
		add("Header missing")
	} else {
		for _, k := range sortedKeys(exp.Header) {
			if !uintEq(hdr[k], exp.Header[k]) {
				add("Header.%s = %v, want %d", k, hdr[k], exp.Header[k])
			}
		}
		if len(hdr) != len(exp.Header) {
			add("Header has %d fields, want %d", len(hdr), len(exp.Header))
		}
	}
	ds, ok := obj["DataSets"].([]interface{})
	if !ok && obj["DataSets"] != nil {
		add("DataSets is not an array")
		return diffs
	}
	if len(ds) != len(exp.Records) {
		add("%d records published, want %d", len(ds), len(exp.Records))
	}
	for i := 0; i < len(ds) && i < len(exp.Records); i++ {
		rec, ok := ds[i].([]interface{})
		if !ok {
			add("record %d is not an array", i)
			continue
		}
		want := exp.Records[i]
		if len(rec) != len(want) {
			add("record %d has %d fields, want %d", i, len(rec), len(want))
		}
		for j := 0; j < len(rec) && j < len(want); j++ {
			f, ok := rec[j].(map[string]interface{})
			if !ok {
				add("record %d field %d is not an object", i, j)
				continue
			}
			w := want[j]
			if !uintEq(f["I"], uint64(w.ID)) {
				add("record %d field %d: I=%v want %d", i, j, f["I"], w.ID)
			}
			if w.PEN != 0 {
				if !uintEq(f["E"], uint64(w.PEN)) {
					add("record %d field %d: E=%v want %d", i, j, f["E"], w.PEN)
				}
			} else if e, has := f["E"]; has && !uintEq(e, 0) {
				add("record %d field %d: unexpected E=%v", i, j, e)
			}
			val, has := f["V"]
			if !has {
				add("record %d field %d: V missing", i, j)
			} else if !ValEq(val, w.Val) {
				add("record %d field %d (id %d/%d): V=%v want %s", i, j, w.PEN, w.ID, trunc(fmt.Sprint(val)), w.Val.String())
			}
		}
	}
	return diffs
}

func trunc(s string) string {
	if len(s) > 80 {
		return s[:80] + "..."
	}
	return s
}

func (e ExpVal) String() string {
	switch e.Kind {
	case "uint":
		return fmt.Sprintf("uint(%d)", e.U)
	case "int":
		return fmt.Sprintf("int(%d)", e.I)
	case "f32", "f64":
		if e.NaN {
			return e.Kind + "(non-finite)"
		}
		return fmt.Sprintf("%s(%g)", e.Kind, e.F)
	case "bool":
		return fmt.Sprintf("bool(%v)", e.U == 1)
	}
	return fmt.Sprintf("%s(%s)", e.Kind, trunc(hex.EncodeToString(e.B)))
}

func sortedKeys(m map[string]uint64) []string {
	ks := make([]string, 0, len(m))
	for k := range m {
		ks = append(ks, k)
	}
	for i := 1; i < len(ks); i++ {
		for j := i; j > 0 && ks[j] < ks[j-1]; j-- {
			ks[j], ks[j-1] = ks[j-1], ks[j]
		}
	}
	return ks
}
