package model

import (
	"encoding/base64"
	"fmt"
	"math/rand"
)

// ---------------------------------------------------------------- abstract sFlow v5

// SFPacket is the sampled packet header in abstract form.
type SFPacket struct {
	Proto    uint32 `json:"proto"` // 1 ethernet, 11 ipv4, 12 ipv6
	DstMAC   []byte `json:"dst_mac,omitempty"`
	SrcMAC   []byte `json:"src_mac,omitempty"`
	Vlan     int    `json:"vlan"` // -1: untagged
	IPv6     bool   `json:"ipv6"`
	TOS      uint8  `json:"tos"`
	ID       uint16 `json:"id"`
	Flags    uint8  `json:"flags"`   // 3 bits
	FragOff  uint16 `json:"fragoff"` // 13 bits
	TTL      uint8  `json:"ttl"`
	Cksum    uint16 `json:"cksum"`
	TotalLen uint16 `json:"total_len"`
	Flow     uint32 `json:"flow"` // 20 bits (ipv6)
	Src      []byte `json:"src"`
	Dst      []byte `json:"dst"`
	L4       uint8  `json:"l4"` // 6 tcp, 17 udp, 1 icmp, 58 icmpv6
	SrcPort  uint16 `json:"sport"`
	DstPort  uint16 `json:"dport"`
	TCPOff   uint8  `json:"tcp_off"`
	TCPFlags uint16 `json:"tcp_flags"` // 9 bits
	TCPRest  []byte `json:"tcp_rest"`  // octets 4..11 and 14..19 of the TCP header (14 octets)
	ICMPType uint8  `json:"icmp_type"`
	ICMPCode uint8  `json:"icmp_code"`
	Payload  []byte `json:"payload"` // after the L4 header (for ICMP: after the first 4 octets, >= 1 octet)
	IHL      uint8  `json:"ihl,omitempty"` // hostile knob: IPv4 header length in words (0 = 5); options are zero octets
	MoreTags int    `json:"more_tags,omitempty"` // hostile knob: further 802.1Q tags stacked behind the first (Q-in-Q)
}

// Bytes renders the sampled header.
func (p *SFPacket) Bytes() []byte {
	var b []byte
	if p.Proto == 1 {
		b = append(b, p.DstMAC...)
		b = append(b, p.SrcMAC...)
		if p.Vlan >= 0 {
			b = put16(b, 0x8100)
			b = put16(b, uint16(p.Vlan))
			for i := 0; i < p.MoreTags; i++ {
				b = put16(b, 0x8100)
				b = put16(b, uint16(p.Vlan+i+1)&0xfff)
			}
		}
		if p.IPv6 {
			b = put16(b, 0x86DD)
		} else {
			b = put16(b, 0x0800)
		}
	}
	if p.IPv6 {
		w := uint32(6)<<28 | uint32(p.TOS)<<20 | p.Flow&0xfffff
		b = put32(b, w)
		b = put16(b, p.TotalLen)
		b = append(b, p.L4, p.TTL)
		b = append(b, p.Src...)
		b = append(b, p.Dst...)
	} else {
		ihl := byte(5)
		if p.IHL != 0 {
			ihl = p.IHL & 0xf
		}
		b = append(b, 0x40|ihl, p.TOS)
		b = put16(b, p.TotalLen)
		b = put16(b, p.ID)
		b = put16(b, uint16(p.Flags&7)<<13|p.FragOff&0x1fff)
		b = append(b, p.TTL, p.L4)
		b = put16(b, p.Cksum)
		b = append(b, p.Src...)
		b = append(b, p.Dst...)
		if p.IHL > 5 {
			b = append(b, make([]byte, int(p.IHL-5)*4)...)
		}
	}
	switch p.L4 {
	case 6:
		b = put16(b, p.SrcPort)
		b = put16(b, p.DstPort)
		b = append(b, p.TCPRest[:8]...)
		b = put16(b, uint16(p.TCPOff&0xf)<<12|p.TCPFlags&0x1ff)
		b = append(b, p.TCPRest[8:14]...)
	case 17:
		b = put16(b, p.SrcPort)
		b = put16(b, p.DstPort)
		b = append(b, 0, 0, 0, 0)
	default:
		b = append(b, p.ICMPType, p.ICMPCode, 0, 0)
	}
	return append(b, p.Payload...)
}

// SFRecord is one record inside a sample.
type SFRecord struct {
	Format uint32    `json:"format"`
	Raw    *SFPacket `json:"raw,omitempty"`
	// raw header record header fields
	FrameLen uint32 `json:"frame_len,omitempty"`
	Stripped uint32 `json:"stripped,omitempty"`
	// extended switch / router, counters: values in layout order
	Vals    []uint64 `json:"vals,omitempty"`
	NextHop []byte   `json:"next_hop,omitempty"`
	Unknown []byte   `json:"unknown,omitempty"`
	// hostile knobs (0: off)
	CutP1     int    `json:"cut_p1,omitempty"`      // sampled header cut to CutP1-1 octets
	DeclLenP1 uint32 `json:"decl_len_p1,omitempty"` // declared record length is DeclLenP1-1
	HdrLenP1  uint32 `json:"hdr_len_p1,omitempty"`  // declared length of the sampled header is HdrLenP1-1
}

// SFSample is one sample.
type SFSample struct {
	Format  uint32     `json:"format"` // 1 flow, 2 counter, else unknown (enterprise 0)
	Seq     uint32     `json:"seq"`
	SrcType uint8      `json:"src_type"`
	SrcIdx  uint32     `json:"src_idx"` // 24 bits
	Rate    uint32     `json:"rate"`
	Pool    uint32     `json:"pool"`
	Drops   uint32     `json:"drops"`
	Input   uint32     `json:"input"`
	Output  uint32     `json:"output"`
	Records []SFRecord `json:"records,omitempty"`
	Unknown []byte     `json:"unknown,omitempty"`
	RecCountP1 uint32  `json:"rec_count_p1,omitempty"` // hostile: announced record count - 1... i.e. count+1 encoded
	DeclLenP1  uint32  `json:"decl_len_p1,omitempty"`
}

// SFDatagram is one sFlow v5 datagram.
type SFDatagram struct {
	Agent   []byte     `json:"agent"` // 4 or 16 octets
	SubID   uint32     `json:"sub_id"`
	Seq     uint32     `json:"seq"`
	Uptime  uint32     `json:"uptime"`
	Samples []SFSample `json:"samples"`
	SampleCountP1 uint32 `json:"sample_count_p1,omitempty"` // hostile: announced sample count + 1
	Version       uint32 `json:"version,omitempty"`         // hostile: 0 means 5
}

type ctrField struct {
	Name string
	Bits int
}

// counter record layouts (sFlow v5 structures)
var sfCounterLayout = map[uint32]struct {
	Key    string
	Fields []ctrField
}{
	1: {"GenInt", []ctrField{{"Index", 32}, {"Type", 32}, {"Speed", 64}, {"Direction", 32}, {"Status", 32}, {"InOctets", 64}, {"InUnicastPackets", 32},
		{"InMulticastPackets", 32}, {"InBroadcastPackets", 32}, {"InDiscards", 32}, {"InErrors", 32}, {"InUnknownProtocols", 32}, {"OutOctets", 64},
		{"OutUnicastPackets", 32}, {"OutMulticastPackets", 32}, {"OutBroadcastPackets", 32}, {"OutDiscards", 32}, {"OutErrors", 32}, {"PromiscuousMode", 32}}},
	2: {"EthInt", []ctrField{{"AlignmentErrors", 32}, {"FCSErrors", 32}, {"SingleCollisionFrames", 32}, {"MultipleCollisionFrames", 32}, {"SQETestErrors", 32},
		{"DeferredTransmissions", 32}, {"LateCollisions", 32}, {"ExcessiveCollisions", 32}, {"InternalMACTransmitErrors", 32}, {"CarrierSenseErrors", 32},
		{"FrameTooLongs", 32}, {"InternalMACReceiveErrors", 32}, {"SymbolErrors", 32}}},
	3: {"TRInt", []ctrField{{"LineErrors", 32}, {"BurstErrors", 32}, {"ACErrors", 32}, {"AbortTransErrors", 32}, {"InternalErrors", 32}, {"LostFrameErrors", 32},
		{"ReceiveCongestions", 32}, {"FrameCopiedErrors", 32}, {"TokenErrors", 32}, {"SoftErrors", 32}, {"HardErrors", 32}, {"SignalLoss", 32}, {"TransmitBeacons", 32},
		{"Recoverys", 32}, {"LobeWires", 32}, {"Removes", 32}, {"Singles", 32}, {"FreqErrors", 32}}},
	4: {"VGInt", []ctrField{{"InHighPriorityFrames", 32}, {"InHighPriorityOctets", 64}, {"InNormPriorityFrames", 32}, {"InNormPriorityOctets", 64}, {"InIPMErrors", 32},
		{"InOversizeFrameErrors", 32}, {"InDataErrors", 32}, {"InNullAddressedFrames", 32}, {"OutHighPriorityFrames", 32}, {"OutHighPriorityOctets", 64},
		{"TransitionIntoTrainings", 32}, {"HCInHighPriorityOctets", 64}, {"HCInNormPriorityOctets", 64}, {"HCOutHighPriorityOctets", 64}}},
	5: {"Vlan", []ctrField{{"ID", 32}, {"Octets", 64}, {"UnicastPackets", 32}, {"MulticastPackets", 32}, {"BroadcastPackets", 32}, {"Discards", 32}}},
	1001: {"Proc", []ctrField{{"CPU5s", 32}, {"CPU1m", 32}, {"CPU5m", 32}, {"TotalMemory", 64}, {"FreeMemory", 64}}},
}

// SFCounterFormats lists the supported counter record formats in order.
var SFCounterFormats = []uint32{1, 2, 3, 4, 5, 1001}

var extSwitchFields = []string{"SrcVlan", "SrcPriority", "DstVlan", "DstPriority"}

func encRecordSF(r *SFRecord, counter bool) []byte {
	var body []byte
	switch {
	case !counter && r.Format == 1 && r.Raw != nil:
		hb := r.Raw.Bytes()
		if r.CutP1 > 0 && r.CutP1-1 < len(hb) {
			hb = hb[:r.CutP1-1]
		}
		body = put32(body, r.Raw.Proto)
		body = put32(body, r.FrameLen)
		body = put32(body, r.Stripped)
		if r.HdrLenP1 > 0 {
			body = put32(body, r.HdrLenP1-1)
		} else {
			body = put32(body, uint32(len(hb)))
		}
		body = append(body, hb...)
		for len(body)%4 != 0 {
			body = append(body, 0)
		}
	case !counter && r.Format == 1001:
		for _, v := range r.Vals {
			body = put32(body, uint32(v))
		}
	case !counter && r.Format == 1002:
		if len(r.NextHop) == 16 {
			body = put32(body, 2)
		} else {
			body = put32(body, 1)
		}
		body = append(body, r.NextHop...)
		body = put32(body, uint32(r.Vals[0]))
		body = put32(body, uint32(r.Vals[1]))
	case counter && sfCounterLayout[r.Format].Key != "":
		for i, f := range sfCounterLayout[r.Format].Fields {
			if f.Bits == 64 {
				body = put32(body, uint32(r.Vals[i]>>32))
				body = put32(body, uint32(r.Vals[i]))
			} else {
				body = put32(body, uint32(r.Vals[i]))
			}
		}
	default:
		body = append(body, r.Unknown...)
	}
	var b []byte
	b = put32(b, r.Format)
	if r.DeclLenP1 > 0 {
		b = put32(b, r.DeclLenP1-1)
	} else {
		b = put32(b, uint32(len(body)))
	}
	return append(b, body...)
}

// Encode renders the datagram.
func (d *SFDatagram) Encode() []byte {
	var b []byte
	if d.Version != 0 {
		b = put32(b, d.Version)
	} else {
		b = put32(b, 5)
	}
	if len(d.Agent) == 16 {
		b = put32(b, 2)
	} else {
		b = put32(b, 1)
	}
	b = append(b, d.Agent...)
	b = put32(b, d.SubID)
	b = put32(b, d.Seq)
	b = put32(b, d.Uptime)
	if d.SampleCountP1 > 0 {
		b = put32(b, d.SampleCountP1-1)
	} else {
		b = put32(b, uint32(len(d.Samples)))
	}
	for i := range d.Samples {
		s := &d.Samples[i]
		var body []byte
		switch s.Format {
		case 1:
			body = put32(body, s.Seq)
			body = put32(body, uint32(s.SrcType)<<24|s.SrcIdx&0xffffff)
			body = put32(body, s.Rate)
			body = put32(body, s.Pool)
			body = put32(body, s.Drops)
			body = put32(body, s.Input)
			body = put32(body, s.Output)
			if s.RecCountP1 > 0 {
				body = put32(body, s.RecCountP1-1)
			} else {
				body = put32(body, uint32(len(s.Records)))
			}
			for j := range s.Records {
				body = append(body, encRecordSF(&s.Records[j], false)...)
			}
		case 2:
			body = put32(body, s.Seq)
			body = put32(body, uint32(s.SrcType)<<24|s.SrcIdx&0xffffff)
			if s.RecCountP1 > 0 {
				body = put32(body, s.RecCountP1-1)
			} else {
				body = put32(body, uint32(len(s.Records)))
			}
			for j := range s.Records {
				body = append(body, encRecordSF(&s.Records[j], true)...)
			}
		default:
			body = append(body, s.Unknown...)
		}
		b = put32(b, s.Format) // enterprise 0
		if s.DeclLenP1 > 0 {
			b = put32(b, s.DeclLenP1-1)
		} else {
			b = put32(b, uint32(len(body)))
		}
		b = append(b, body...)
	}
	return b
}

// ---------------------------------------------------------------- expectation

// IPText marks an expected address rendered as text; B64 expected octets
// rendered by encoding/json as base64.
type IPText []byte
type B64 []byte

// ExpSF is the expected decode of an sFlow datagram as a tree of
// map[string]interface{} / []interface{} / uint64 / string / IPText / B64.
type ExpSF struct {
	Top      map[string]interface{}
	Samples  []interface{}
	Counters []interface{}
}

func macText(b []byte) string {
	return fmt.Sprintf("%02x:%02x:%02x:%02x:%02x:%02x", b[0], b[1], b[2], b[3], b[4], b[5])
}

func expPacket(p *SFPacket) map[string]interface{} {
	l2 := map[string]interface{}{"SrcMAC": "", "DstMAC": "", "Vlan": uint64(0), "EtherType": uint64(0)}
	if p.Proto == 1 {
		et := uint64(0x0800)
		if p.IPv6 {
			et = 0x86DD
		}
		v := uint64(0)
		if p.Vlan >= 0 {
			v = uint64(p.Vlan)
		}
		l2 = map[string]interface{}{"SrcMAC": macText(p.SrcMAC), "DstMAC": macText(p.DstMAC), "Vlan": v, "EtherType": et}
	}
	var l3 map[string]interface{}
	if p.IPv6 {
		l3 = map[string]interface{}{"Version": uint64(6), "TrafficClass": uint64(p.TOS), "FlowLabel": uint64(p.Flow & 0xfffff), "PayloadLen": uint64(p.TotalLen),
			"NextHeader": uint64(p.L4), "HopLimit": uint64(p.TTL), "Src": IPText(p.Src), "Dst": IPText(p.Dst)}
	} else {
		l3 = map[string]interface{}{"Version": uint64(4), "TOS": uint64(p.TOS), "TotalLen": uint64(p.TotalLen), "ID": uint64(p.ID), "Flags": uint64(p.Flags & 7),
			"FragOff": uint64(p.FragOff & 0x1fff), "TTL": uint64(p.TTL), "Protocol": uint64(p.L4), "Checksum": uint64(p.Cksum), "Src": IPText(p.Src), "Dst": IPText(p.Dst)}
	}
	var l4 map[string]interface{}
	switch p.L4 {
	case 6:
		l4 = map[string]interface{}{"SrcPort": uint64(p.SrcPort), "DstPort": uint64(p.DstPort), "DataOffset": uint64(p.TCPOff & 0xf), "Reserved": uint64(0), "Flags": uint64(p.TCPFlags & 0x1ff)}
	case 17:
		l4 = map[string]interface{}{"SrcPort": uint64(p.SrcPort), "DstPort": uint64(p.DstPort)}
	default:
		l4 = map[string]interface{}{"Type": uint64(p.ICMPType), "Code": uint64(p.ICMPCode), "RestHeader": B64(p.Payload)}
	}
	return map[string]interface{}{"L2": l2, "L3": l3, "L4": l4}
}

// ExpectSF computes the expected decode; samples whose format is in filter are
// omitted. Returns nil if nothing can be expected (never for well-formed input).
func ExpectSF(d *SFDatagram, filter []uint32) *ExpSF {
	e := &ExpSF{Samples: []interface{}{}, Counters: []interface{}{}}
	ipv := uint64(1)
	if len(d.Agent) == 16 {
		ipv = 2
	}
	e.Top = map[string]interface{}{"Version": uint64(5), "IPVersion": ipv, "AgentSubID": uint64(d.SubID), "SequenceNo": uint64(d.Seq),
		"SysUpTime": uint64(d.Uptime), "SamplesNo": uint64(len(d.Samples)), "IPAddress": IPText(d.Agent)}
	for i := range d.Samples {
		s := &d.Samples[i]
		skip := false
		for _, f := range filter {
			if f == s.Format {
				skip = true
			}
		}
		if skip {
			continue
		}
		switch s.Format {
		case 1:
			recs := map[string]interface{}{}
			for j := range s.Records {
				r := &s.Records[j]
				switch {
				case r.Format == 1 && r.Raw != nil:
					recs["RawHeader"] = expPacket(r.Raw)
				case r.Format == 1001:
					m := map[string]interface{}{}
					for k, n := range extSwitchFields {
						m[n] = uint64(uint32(r.Vals[k]))
					}
					recs["ExtSwitch"] = m
				case r.Format == 1002:
					recs["ExtRouter"] = map[string]interface{}{"NextHop": IPText(r.NextHop), "SrcMask": uint64(uint32(r.Vals[0])), "DstMask": uint64(uint32(r.Vals[1]))}
				}
			}
			e.Samples = append(e.Samples, map[string]interface{}{"SequenceNo": uint64(s.Seq), "SourceID": uint64(s.SrcType), "SamplingRate": uint64(s.Rate),
				"SamplePool": uint64(s.Pool), "Drops": uint64(s.Drops), "Input": uint64(s.Input), "Output": uint64(s.Output), "RecordsNo": uint64(len(s.Records)), "Records": recs})
		case 2:
			recs := map[string]interface{}{}
			for j := range s.Records {
				r := &s.Records[j]
				lay, ok := sfCounterLayout[r.Format]
				if !ok {
					continue
				}
				m := map[string]interface{}{}
				for k, f := range lay.Fields {
					v := r.Vals[k]
					if f.Bits == 32 {
						v = uint64(uint32(v))
					}
					m[f.Name] = v
				}
				recs[lay.Key] = m
			}
			e.Counters = append(e.Counters, map[string]interface{}{"SequenceNo": uint64(s.Seq), "SourceIDType": uint64(s.SrcType), "SourceIDIdx": uint64(s.SrcIdx & 0xffffff),
				"RecordsNo": uint64(len(s.Records)), "Records": recs})
		}
	}
	return e
}

func cmpTree(path string, got interface{}, want interface{}, add func(string, ...interface{})) {
	switch w := want.(type) {
	case uint64:
		if !uintEq(got, w) {
			add("%s = %v, want %d", path, got, w)
		}
	case string:
		if s, ok := got.(string); !ok || s != w {
			add("%s = %v, want %q", path, got, w)
		}
	case IPText:
		if s, ok := got.(string); !ok || !AddrText(s, w) {
			add("%s = %v, want address %x", path, got, []byte(w))
		}
	case B64:
		s, ok := got.(string)
		if !ok {
			if got == nil && len(w) == 0 {
				return
			}
			add("%s = %v, want octets %x", path, got, []byte(w))
			return
		}
		d, err := base64.StdEncoding.DecodeString(s)
		if err != nil || string(d) != string(w) {
			add("%s = %q, want octets %x", path, s, []byte(w))
		}
	case map[string]interface{}:
		g, ok := got.(map[string]interface{})
		if !ok {
			add("%s is %T, want object", path, got)
			return
		}
		ks := make([]string, 0, len(w))
		for k := range w {
			ks = append(ks, k)
		}
		sortStrings(ks)
		for _, k := range ks {
			gv, has := g[k]
			if !has {
				add("%s.%s missing", path, k)
				continue
			}
			cmpTree(path+"."+k, gv, w[k], add)
		}
		if len(g) != len(w) {
			gk := make([]string, 0, len(g))
			for k := range g {
				if _, ok := w[k]; !ok {
					gk = append(gk, k)
				}
			}
			sortStrings(gk)
			add("%s has unexpected fields %v", path, gk)
		}
	case []interface{}:
		g, ok := got.([]interface{})
		if !ok {
			if got == nil && len(w) == 0 {
				return
			}
			add("%s is %T, want array", path, got)
			return
		}
		if len(g) != len(w) {
			add("%s has %d entries, want %d", path, len(g), len(w))
		}
		for i := 0; i < len(g) && i < len(w); i++ {
			cmpTree(fmt.Sprintf("%s[%d]", path, i), g[i], w[i], add)
		}
	}
}

func sortStrings(a []string) {
	for i := 1; i < len(a); i++ {
		for j := i; j > 0 && a[j] < a[j-1]; j-- {
			a[j], a[j-1] = a[j-1], a[j]
		}
	}
}

// CompareSFJSON checks a published sFlow message. colTimeLo/Hi bound the
// collection time stamp (seconds on the simulated clock).
func CompareSFJSON(exp *ExpSF, payload []byte, colTimeLo, colTimeHi int64) []string {
	v, err := ParseJSONStrict(payload)
	if err != nil {
		return []string{"invalid JSON: " + err.Error()}
	}
	var diffs []string
	add := func(f string, a ...interface{}) {
		if len(diffs) < 8 {
			diffs = append(diffs, fmt.Sprintf(f, a...))
		}
	}
	obj, ok := v.(map[string]interface{})
	if !ok {
		return []string{"top level is not an object"}
	}
	top := map[string]interface{}{}
	for k, x := range exp.Top {
		top[k] = x
	}
	top["Samples"] = exp.Samples
	top["Counters"] = exp.Counters
	// ColTime is checked against the window, not for equality
	ct, has := obj["ColTime"]
	if !has {
		add("ColTime missing")
	} else {
		ok := false
		for t := colTimeLo; t <= colTimeHi; t++ {
			if intEq(ct, t) {
				ok = true
			}
		}
		if !ok {
			add("ColTime = %v outside [%d,%d]", ct, colTimeLo, colTimeHi)
		}
	}
	rest := map[string]interface{}{}
	for k, x := range obj {
		if k != "ColTime" {
			rest[k] = x
		}
	}
	cmpTree("$", rest, top, add)
	return diffs
}

// ---------------------------------------------------------------- generator

func rndBytes(r *rand.Rand, n int) []byte {
	b := make([]byte, n)
	r.Read(b)
	return b
}

// GenSFPacket generates a sampled header of the supported shapes.
func GenSFPacket(r *rand.Rand) *SFPacket {
	p := &SFPacket{Proto: []uint32{1, 1, 1, 11, 12}[r.Intn(5)], Vlan: -1}
	switch p.Proto {
	case 1:
		p.DstMAC, p.SrcMAC = rndBytes(r, 6), rndBytes(r, 6)
		if r.Intn(2) == 0 {
			// the same few stations talk to each other again and again: the same
			// conversation is sampled on tagged and on untagged ports
			st := [][]byte{{0x02, 0, 0, 0, 0, 0x01}, {0x02, 0, 0, 0, 0, 0x02}}
			p.DstMAC, p.SrcMAC = append([]byte(nil), st[r.Intn(2)]...), append([]byte(nil), st[r.Intn(2)]...)
		}
		if r.Intn(3) == 0 {
			p.Vlan = r.Intn(4096) // priority and DEI bits zero (narrow reading, DESIGN.md 9.3)
		}
		p.IPv6 = r.Intn(3) == 0
	case 12:
		p.IPv6 = true
	}
	p.TOS = uint8(r.Intn(256))
	p.ID = uint16(r.Intn(65536))
	p.Flags = uint8(r.Intn(8))
	p.FragOff = uint16(r.Intn(8192))
	if r.Intn(2) == 0 {
		p.FragOff = 0
		p.Flags = []uint8{0, 2}[r.Intn(2)]
	}
	p.TTL = uint8(r.Intn(256))
	p.Cksum = uint16(r.Intn(65536))
	p.TotalLen = uint16(r.Intn(65536))
	p.Flow = uint32(r.Intn(1 << 20))
	if p.IPv6 {
		p.Src, p.Dst = rndBytes(r, 16), rndBytes(r, 16)
	} else {
		p.Src, p.Dst = rndBytes(r, 4), rndBytes(r, 4)
	}
	switch r.Intn(3) {
	case 0:
		p.L4 = 6
		p.TCPOff = uint8(r.Intn(16))
		p.TCPFlags = uint16(r.Intn(512))
		p.TCPRest = rndBytes(r, 14)
		p.Payload = rndBytes(r, r.Intn(40))
	case 1:
		p.L4 = 17
		p.Payload = rndBytes(r, r.Intn(40))
	default:
		p.L4 = 1
		if p.IPv6 {
			p.L4 = 58
		}
		p.ICMPType, p.ICMPCode = uint8(r.Intn(256)), uint8(r.Intn(256))
		p.Payload = rndBytes(r, 1+r.Intn(40))
	}
	p.SrcPort, p.DstPort = uint16(r.Intn(65536)), uint16(r.Intn(65536))
	return p
}

func rnd64(r *rand.Rand) uint64 {
	switch r.Intn(6) {
	case 0:
		return 0
	case 1:
		return ^uint64(0)
	case 2:
		return 1 << 63
	}
	return r.Uint64()
}

// vendorTag builds a data-format tag with a non-zero enterprise number (upper
// 20 bits) and one of the given format numbers (lower 12 bits).
func vendorTag(r *rand.Rand, formats []uint32) uint32 {
	ent := uint32(1 + r.Intn(1<<20-1))
	if r.Intn(4) == 0 {
		ent = []uint32{1, 9, 4413, 1<<20 - 1}[r.Intn(4)]
	}
	return ent<<12 | formats[r.Intn(len(formats))]&0xfff
}

// GenSFDatagram generates a well-formed datagram of any mix of samples.
func GenSFDatagram(r *rand.Rand, seq, subID uint32, maxSize int) *SFDatagram {
	d := &SFDatagram{SubID: subID, Seq: seq, Uptime: rnd32(r)}
	if r.Intn(4) == 0 {
		d.Agent = rndBytes(r, 16)
	} else {
		d.Agent = rndBytes(r, 4)
	}
	n := r.Intn(6)
	if r.Intn(10) == 0 {
		n = 0
	}
	for i := 0; i < n; i++ {
		s := SFSample{Seq: rnd32(r), SrcType: uint8(r.Intn(256)), SrcIdx: uint32(r.Intn(1 << 24)), Rate: rnd32(r), Pool: rnd32(r), Drops: rnd32(r), Input: rnd32(r), Output: rnd32(r)}
		switch r.Intn(5) {
		case 0, 1:
			s.Format = 1
			kinds := r.Perm(4)[:r.Intn(5)]
			for _, k := range kinds {
				switch k {
				case 0:
					s.Records = append(s.Records, SFRecord{Format: 1, Raw: GenSFPacket(r), FrameLen: rnd32(r), Stripped: rnd32(r)})
				case 1:
					s.Records = append(s.Records, SFRecord{Format: 1001, Vals: []uint64{uint64(rnd32(r)), uint64(rnd32(r)), uint64(rnd32(r)), uint64(rnd32(r))}})
				case 2:
					nh := rndBytes(r, 4)
					if r.Intn(3) == 0 {
						nh = rndBytes(r, 16)
					}
					s.Records = append(s.Records, SFRecord{Format: 1002, NextHop: nh, Vals: []uint64{uint64(rnd32(r)), uint64(rnd32(r))}})
				case 3:
					s.Records = append(s.Records, SFRecord{Format: uint32(2 + r.Intn(900)), Unknown: rndBytes(r, 4*r.Intn(8))})
					if f := s.Records[len(s.Records)-1].Format; f == 1001 || f == 1002 {
						s.Records[len(s.Records)-1].Format = 7
					}
					if r.Intn(3) == 0 {
						// an enterprise-specific record whose format number collides with a standard one
						s.Records[len(s.Records)-1].Format = vendorTag(r, []uint32{1, 2, 1001, 1002, 7})
					}
				}
			}
		case 2, 3:
			s.Format = 2
			perm := r.Perm(7)[:r.Intn(8)]
			for _, k := range perm {
				if k == 6 {
					s.Records = append(s.Records, SFRecord{Format: uint32(6 + r.Intn(900)), Unknown: rndBytes(r, 4*r.Intn(8))})
					if s.Records[len(s.Records)-1].Format == 1001 {
						s.Records[len(s.Records)-1].Format = 9
					}
					if r.Intn(3) == 0 {
						s.Records[len(s.Records)-1].Format = vendorTag(r, []uint32{1, 2, 3, 4, 5, 1001, 9})
					}
					continue
				}
				f := SFCounterFormats[k]
				var vals []uint64
				for _, fl := range sfCounterLayout[f].Fields {
					if fl.Bits == 64 {
						vals = append(vals, rnd64(r))
					} else {
						vals = append(vals, uint64(rnd32(r)))
					}
				}
				s.Records = append(s.Records, SFRecord{Format: f, Vals: vals})
			}
		default:
			s.Format = []uint32{3, 4, 5, 7, 100, 4095}[r.Intn(6)]
			if r.Intn(3) == 0 {
				// an enterprise-specific sample type, also with the format number of a standard one
				s.Format = vendorTag(r, []uint32{1, 2, 3, 4, 7})
			}
			s.Unknown = rndBytes(r, 4*r.Intn(12))
		}
		d.Samples = append(d.Samples, s)
		if len(d.Encode()) > maxSize {
			d.Samples = d.Samples[:len(d.Samples)-1]
			break
		}
	}
	return d
}
