package model

import (
	"fmt"
	"math/rand"
)

// V5Flow is one 48-octet NetFlow v5 record in abstract form.
type V5Flow struct {
	SrcAddr, DstAddr, NextHop    uint32
	Input, Output                uint16
	PktCount, L3Octets           uint32
	StartTime, EndTime           uint32
	SrcPort, DstPort             uint16
	Padding1, TCPFlags, ProtType uint8
	Tos                          uint8
	SrcAsNum, DstAsNum           uint16
	SrcMask, DstMask             uint8
	Padding2                     uint16
}

// V5Packet is a NetFlow v5 export packet.
type V5Packet struct {
	Version  uint16   `json:"version"`
	Count    uint16   `json:"count"`
	SysUp    uint32   `json:"sysup"`
	Secs     uint32   `json:"secs"`
	NSecs    uint32   `json:"nsecs"`
	Seq      uint32   `json:"seq"`
	EngType  uint8    `json:"eng_type"`
	EngID    uint8    `json:"eng_id"`
	SmpInt   uint16   `json:"smp_int"`
	Flows    []V5Flow `json:"flows"`    // records actually carried
	Trailing []byte   `json:"trailing"` // octets after the last record
	CutTo    int      `json:"cut_to"`   // >0: datagram truncated to this length
}

// Encode renders the packet.
func (p *V5Packet) Encode() []byte {
	var b []byte
	b = put16(b, p.Version)
	b = put16(b, p.Count)
	b = put32(b, p.SysUp)
	b = put32(b, p.Secs)
	b = put32(b, p.NSecs)
	b = put32(b, p.Seq)
	b = append(b, p.EngType, p.EngID)
	b = put16(b, p.SmpInt)
	for _, f := range p.Flows {
		b = put32(b, f.SrcAddr)
		b = put32(b, f.DstAddr)
		b = put32(b, f.NextHop)
		b = put16(b, f.Input)
		b = put16(b, f.Output)
		b = put32(b, f.PktCount)
		b = put32(b, f.L3Octets)
		b = put32(b, f.StartTime)
		b = put32(b, f.EndTime)
		b = put16(b, f.SrcPort)
		b = put16(b, f.DstPort)
		b = append(b, f.Padding1, f.TCPFlags, f.ProtType, f.Tos)
		b = put16(b, f.SrcAsNum)
		b = put16(b, f.DstAsNum)
		b = append(b, f.SrcMask, f.DstMask)
		b = put16(b, f.Padding2)
	}
	b = append(b, p.Trailing...)
	if p.CutTo > 0 && p.CutTo < len(b) {
		b = b[:p.CutTo]
	}
	return b
}

// ExpV5 is the expected decode of a v5 datagram.
type ExpV5 struct {
	Agent  []byte            `json:"agent"`
	Header map[string]uint64 `json:"header"`
	Flows  []V5Flow          `json:"flows"` // nil: nothing may be published
}

// ExpectV5 applies the v5 rules: version 5, 1..30 flows announced, at least
// that many 48-octet records present.
func ExpectV5(p *V5Packet, addr []byte) *ExpV5 {
	e := &ExpV5{Agent: addr}
	enc := p.Encode()
	if len(enc) < 24 || p.Version != 5 || p.Count < 1 || p.Count > 30 {
		return e
	}
	if len(enc)-24 < int(p.Count)*48 {
		return e
	}
	e.Header = map[string]uint64{"Version": 5, "Count": uint64(p.Count), "SysUpTimeMSecs": uint64(p.SysUp), "UNIXSecs": uint64(p.Secs),
		"UNIXNSecs": uint64(p.NSecs), "SeqNum": uint64(p.Seq), "EngType": uint64(p.EngType), "EngID": uint64(p.EngID), "SmpInt": uint64(p.SmpInt)}
	// the records are whatever octets follow the header, 48 at a time
	be16 := func(b []byte) uint16 { return uint16(b[0])<<8 | uint16(b[1]) }
	be32 := func(b []byte) uint32 { return uint32(be16(b))<<16 | uint32(be16(b[2:])) }
	e.Flows = []V5Flow{}
	for i := 0; i < int(p.Count); i++ {
		r := enc[24+i*48 : 24+(i+1)*48]
		e.Flows = append(e.Flows, V5Flow{SrcAddr: be32(r), DstAddr: be32(r[4:]), NextHop: be32(r[8:]), Input: be16(r[12:]), Output: be16(r[14:]),
			PktCount: be32(r[16:]), L3Octets: be32(r[20:]), StartTime: be32(r[24:]), EndTime: be32(r[28:]), SrcPort: be16(r[32:]), DstPort: be16(r[34:]),
			Padding1: r[36], TCPFlags: r[37], ProtType: r[38], Tos: r[39], SrcAsNum: be16(r[40:]), DstAsNum: be16(r[42:]), SrcMask: r[44], DstMask: r[45], Padding2: be16(r[46:])})
	}
	return e
}

func u32addr(v uint32) []byte { return []byte{byte(v >> 24), byte(v >> 16), byte(v >> 8), byte(v)} }

// CompareV5JSON checks a published v5 message.
func CompareV5JSON(exp *ExpV5, payload []byte) []string {
	v, err := ParseJSONStrict(payload)
	if err != nil {
		return []string{"invalid JSON: " + err.Error()}
	}
	var diffs []string
	add := func(f string, a ...interface{}) {
		if len(diffs) < 8 {
			diffs = append(diffs, fmt.Sprintf(f, a...))
		}
	}
	obj, ok := v.(map[string]interface{})
	if !ok {
		return []string{"top level is not an object"}
	}
	if s, ok := obj["AgentID"].(string); !ok || !AddrText(s, exp.Agent) {
		add("AgentID %v != %x", obj["AgentID"], exp.Agent)
	}
	hdr, _ := obj["Header"].(map[string]interface{})
	for _, k := range sortedKeys(exp.Header) {
		if !uintEq(hdr[k], exp.Header[k]) {
			add("Header.%s = %v, want %d", k, hdr[k], exp.Header[k])
		}
	}
	fl, _ := obj["Flows"].([]interface{})
	if len(fl) != len(exp.Flows) {
		add("%d flows published, want %d", len(fl), len(exp.Flows))
	}
	for i := 0; i < len(fl) && i < len(exp.Flows); i++ {
		f, ok := fl[i].(map[string]interface{})
		if !ok {
			add("flow %d is not an object", i)
			continue
		}
		w := exp.Flows[i]
		addr := func(k string, v uint32) {
			s, ok := f[k].(string)
			if !ok || !AddrText(s, u32addr(v)) || s != fmt.Sprintf("%d.%d.%d.%d", byte(v>>24), byte(v>>16), byte(v>>8), byte(v)) {
				add("flow %d %s = %v, want %x", i, k, f[k], v)
			}
		}
		num := func(k string, v uint64) {
			if !uintEq(f[k], v) {
				add("flow %d %s = %v, want %d", i, k, f[k], v)
			}
		}
		addr("SrcAddr", w.SrcAddr)
		addr("DstAddr", w.DstAddr)
		addr("NextHop", w.NextHop)
		num("Input", uint64(w.Input))
		num("Output", uint64(w.Output))
		num("PktCount", uint64(w.PktCount))
		num("L3Octets", uint64(w.L3Octets))
		num("StartTime", uint64(w.StartTime))
		num("EndTime", uint64(w.EndTime))
		num("SrcPort", uint64(w.SrcPort))
		num("DstPort", uint64(w.DstPort))
		num("Padding1", uint64(w.Padding1))
		num("TCPFlags", uint64(w.TCPFlags))
		num("ProtType", uint64(w.ProtType))
		num("Tos", uint64(w.Tos))
		num("SrcAsNum", uint64(w.SrcAsNum))
		num("DstAsNum", uint64(w.DstAsNum))
		num("SrcMask", uint64(w.SrcMask))
		num("DstMask", uint64(w.DstMask))
		num("Padding2", uint64(w.Padding2))
		if len(f) != 20 {
			add("flow %d has %d fields, want 20", i, len(f))
		}
	}
	return diffs
}

func rnd32(r *rand.Rand) uint32 {
	switch r.Intn(8) {
	case 0:
		return 0
	case 1:
		return 0xffffffff
	case 2:
		return 0x80000000
	}
	return r.Uint32()
}

// GenV5 generates a v5 packet. wellFormed restricts to packets that must
// decode; otherwise header/count/length anomalies are mixed in.
func GenV5(r *rand.Rand, seq uint32, engID uint8, wellFormed bool) *V5Packet {
	p := &V5Packet{Version: 5, SysUp: rnd32(r), Secs: rnd32(r), NSecs: rnd32(r), Seq: seq, EngType: uint8(r.Intn(256)), EngID: engID, SmpInt: uint16(r.Intn(65536))}
	n := 1 + r.Intn(30)
	if r.Intn(4) == 0 {
		n = []int{1, 29, 30}[r.Intn(3)]
	}
	p.Count = uint16(n)
	carried := n
	if !wellFormed {
		switch r.Intn(8) {
		case 0:
			p.Version = uint16(r.Intn(12))
		case 1:
			p.Count = 0
		case 2:
			p.Count = uint16(31 + r.Intn(10))
		case 3:
			carried = r.Intn(n) // too few records
		case 4:
			carried = n
			p.CutTo = 24 + n*48 - 1 - r.Intn(47)
		case 5:
			carried = n + 1 + r.Intn(2) // extra record: trailing octets
			if carried > 30 {
				carried = 30
			}
		case 6:
			p.Trailing = make([]byte, 1+r.Intn(60))
			r.Read(p.Trailing)
		}
	} else if r.Intn(5) == 0 {
		p.Trailing = make([]byte, 1+r.Intn(20))
		r.Read(p.Trailing)
	}
	for i := 0; i < carried; i++ {
		f := V5Flow{SrcAddr: rnd32(r), DstAddr: rnd32(r), NextHop: rnd32(r), Input: uint16(r.Intn(65536)), Output: uint16(r.Intn(65536)),
			PktCount: rnd32(r), L3Octets: rnd32(r), StartTime: rnd32(r), EndTime: rnd32(r), SrcPort: uint16(r.Intn(65536)), DstPort: uint16(r.Intn(65536)),
			Padding1: uint8(r.Intn(256)), TCPFlags: uint8(r.Intn(256)), ProtType: uint8(r.Intn(256)), Tos: uint8(r.Intn(256)),
			SrcAsNum: uint16(r.Intn(65536)), DstAsNum: uint16(r.Intn(65536)), SrcMask: uint8(r.Intn(256)), DstMask: uint8(r.Intn(256)), Padding2: uint16(r.Intn(65536))}
		p.Flows = append(p.Flows, f)
	}
	return p
}
