package simrt

import (
	"bytes"
	"errors"
	"flag"
	"fmt"
	"io"
	"log"
	"net/http"
	"os"
	"runtime"
	"time"
)

// Boot is the per-incarnation process environment: argv, environment, the
// flag set, signal subscriptions.
type Boot struct {
	Args    []string
	Env     map[string]string
	fset    *flag.FlagSet
	sigCh   []chan<- os.Signal
	Signals int
}

// LogBuf captures what the program writes to os.Stderr.
type LogBuf struct {
	buf bytes.Buffer
}

func (l *LogBuf) Write(b []byte) (int, error) {
	if l.buf.Len() < 1<<20 {
		l.buf.Write(b)
	}
	return len(b), nil
}

// String returns the captured log.
func (l *LogBuf) String() string { return l.buf.String() }

type stderrW struct{}

func (stderrW) Write(b []byte) (int, error) {
	if s := cur; s != nil {
		return s.Log.Write(b)
	}
	return os.Stderr.Write(b)
}

// Stderr replaces os.Stderr.
var Stderr io.Writer = stderrW{}

// Getenv replaces os.Getenv.
func Getenv(k string) string {
	if s := cur; s != nil {
		return s.Boot.Env[k]
	}
	return os.Getenv(k)
}

// LookupEnv replaces os.LookupEnv.
func LookupEnv(k string) (string, bool) {
	if s := cur; s != nil {
		v, ok := s.Boot.Env[k]
		return v, ok
	}
	return os.LookupEnv(k)
}

// Args replaces os.Args (as a function call).
func Args() []string {
	if s := cur; s != nil {
		return s.Boot.Args
	}
	return os.Args
}

// Getpid replaces os.Getpid.
func Getpid() int {
	if cur != nil {
		return 4242
	}
	return os.Getpid()
}

// FlagSet returns the flag set of the current boot.
func FlagSet() *flag.FlagSet {
	s := cur
	if s == nil {
		return flag.CommandLine
	}
	if s.Boot.fset == nil {
		name := "vflow"
		if len(s.Boot.Args) > 0 {
			name = s.Boot.Args[0]
		}
		s.Boot.fset = flag.NewFlagSet(name, flag.ContinueOnError)
		s.Boot.fset.SetOutput(Stderr)
	}
	return s.Boot.fset
}

// FlagParse replaces flag.Parse.
func FlagParse() {
	s := cur
	if s == nil {
		flag.Parse()
		return
	}
	var a []string
	if len(s.Boot.Args) > 1 {
		a = s.Boot.Args[1:]
	}
	if err := FlagSet().Parse(a); err != nil {
		if errors.Is(err, flag.ErrHelp) {
			Exit(0)
		}
		Exit(2)
	}
}

// Notify replaces signal.Notify.
func Notify(c chan<- os.Signal, sig ...os.Signal) {
	if s := cur; s != nil {
		s.Boot.sigCh = append(s.Boot.sigCh, c)
	}
}

// HasSignalHandler reports whether the program has called signal.Notify.
func (s *Sim) HasSignalHandler() bool { return len(s.Boot.sigCh) > 0 }

// Signal delivers a signal to the simulated process (harness use). Like the
// os/signal package it never blocks.
func (s *Sim) Signal(sig os.Signal) {
	s.Boot.Signals++
	for _, c := range s.Boot.sigCh {
		select {
		case c <- sig:
		default:
		}
	}
}

// Exit replaces os.Exit: records the status and ends the calling goroutine.
func Exit(code int) {
	s := cur
	if s == nil {
		os.Exit(code)
	}
	if !s.Exited {
		s.Exited = true
		s.ExitCode = code
		s.ExitAt = s.Now()
	}
	select {
	case s.arrive <- struct{}{}:
	default:
	}
	runtime.Goexit()
}

// LogFatal replaces log.Fatal / (*log.Logger).Fatal.
func LogFatal(l *log.Logger, v ...interface{}) {
	if l == nil {
		l = log.New(Stderr, "", log.LstdFlags)
	}
	l.Output(2, fmt.Sprint(v...))
	Exit(1)
}

// LogFatalf replaces log.Fatalf / (*log.Logger).Fatalf.
func LogFatalf(l *log.Logger, f string, v ...interface{}) {
	if l == nil {
		l = log.New(Stderr, "", log.LstdFlags)
	}
	l.Output(2, fmt.Sprintf(f, v...))
	Exit(1)
}

// LogFatalln replaces log.Fatalln / (*log.Logger).Fatalln.
func LogFatalln(l *log.Logger, v ...interface{}) {
	if l == nil {
		l = log.New(Stderr, "", log.LstdFlags)
	}
	l.Output(2, fmt.Sprintln(v...))
	Exit(1)
}

// GOMAXPROCS replaces runtime.GOMAXPROCS (no-op in simulation).
func GOMAXPROCS(n int) int {
	if cur == nil {
		return runtime.GOMAXPROCS(n)
	}
	return 1
}

// NumCPU replaces runtime.NumCPU (fixed in simulation).
func NumCPU() int {
	// fixed in every binary that links simrt: package-level initialisers
	// (maxWorkers) run before any simulation exists
	return 4
}

// Cmd replaces exec.Cmd for the single use vFlow has (kill -0 <pid>).
type Cmd struct{ name string }

// Command replaces exec.Command.
func Command(name string, arg ...string) *Cmd { return &Cmd{name} }

// Output reports failure: no other vFlow process exists in the simulation.
func (c *Cmd) Output() ([]byte, error) { return nil, errors.New("simrt: no such process") }

// Run mirrors exec.Cmd.
func (c *Cmd) Run() error { return errors.New("simrt: no such process") }

// HTTPServer records an http.ListenAndServe call.
type HTTPServer struct {
	Addr    string
	Handler http.Handler
	At      time.Duration
}

// HTTPListenAndServe replaces http.ListenAndServe: records the server and
// blocks forever (requests are injected by the harness through Handler).
func HTTPListenAndServe(addr string, h http.Handler) error {
	s := cur
	if s == nil {
		return http.ListenAndServe(addr, h)
	}
	Yield(siteNet)
	for _, o := range s.HTTP {
		if o.Addr == addr {
			return errors.New("listen tcp " + addr + ": bind: address already in use")
		}
	}
	s.HTTP = append(s.HTTP, &HTTPServer{Addr: addr, Handler: h, At: s.Now()})
	select {}
}
