package simrt

import (
	"encoding/json"
	"errors"
	"strconv"
	"strings"
)

// Choice kinds.
const (
	KSched    = 1 // V = task id chosen
	KSelect   = 2 // V = index of the case tried first (rotation)
	KStall    = 3
	KStallDur = 4
	KPool     = 5
	KNet      = 6
	KSink     = 7
	KDisk     = 8
	KOther    = 9
)

// Choice is one recorded decision: kind, bound, value. For KSched the value
// is the id of the task released and N the number of ready tasks.
type Choice struct {
	K uint8 `json:"k"`
	N int32 `json:"n"`
	V int32 `json:"v"`
}

// ChoiceList is a recorded choice stream. In JSON it is one string of
// space-separated "k.n.v" triples (a run of identical triples is written
// "k.n.v*count"): replay files of long runs hold several hundred thousand
// decisions. The older array-of-objects form is still read.
type ChoiceList []Choice

// MarshalJSON writes the compact form.
func (l ChoiceList) MarshalJSON() ([]byte, error) {
	b := make([]byte, 0, 12*len(l)+2)
	b = append(b, '"')
	for i := 0; i < len(l); {
		j := i + 1
		for j < len(l) && l[j] == l[i] {
			j++
		}
		if i > 0 {
			b = append(b, ' ')
		}
		b = strconv.AppendInt(b, int64(l[i].K), 10)
		b = append(b, '.')
		b = strconv.AppendInt(b, int64(l[i].N), 10)
		b = append(b, '.')
		b = strconv.AppendInt(b, int64(l[i].V), 10)
		if j-i > 1 {
			b = append(b, '*')
			b = strconv.AppendInt(b, int64(j-i), 10)
		}
		i = j
	}
	b = append(b, '"')
	return b, nil
}

// UnmarshalJSON reads the compact form or the array-of-objects form.
func (l *ChoiceList) UnmarshalJSON(b []byte) error {
	*l = nil
	if len(b) == 0 || string(b) == "null" {
		return nil
	}
	if b[0] == '[' {
		var raw []Choice
		if err := json.Unmarshal(b, &raw); err != nil {
			return err
		}
		*l = raw
		return nil
	}
	var s string
	if err := json.Unmarshal(b, &s); err != nil {
		return err
	}
	for _, f := range strings.Fields(s) {
		count := 1
		if k := strings.IndexByte(f, '*'); k >= 0 {
			c, err := strconv.Atoi(f[k+1:])
			if err != nil || c < 1 {
				return errors.New("choice list: bad repeat count in " + f)
			}
			count, f = c, f[:k]
		}
		p := strings.Split(f, ".")
		if len(p) != 3 {
			return errors.New("choice list: bad entry " + f)
		}
		kk, e1 := strconv.Atoi(p[0])
		nn, e2 := strconv.Atoi(p[1])
		vv, e3 := strconv.Atoi(p[2])
		if e1 != nil || e2 != nil || e3 != nil {
			return errors.New("choice list: bad entry " + f)
		}
		for ; count > 0; count-- {
			*l = append(*l, Choice{K: uint8(kk), N: int32(nn), V: int32(vv)})
		}
	}
	return nil
}

// Choices is the single stream every run-time decision is drawn from. In
// random mode values come from the PRNG; in replay mode from the recorded
// list, falling back to the default policy (no preemption / value 0) when the
// list is exhausted or an entry is marked default (V < 0).
type Choices struct {
	rng    prng
	Replay []Choice
	pos    int
	replay bool
	Rec    []Choice
	Counts [16]uint64
	// PreemptBias: probability (per 1000) of keeping the last-run task when it
	// is ready, making long uninterrupted stretches likely in some runs.
	KeepBias int
}

// prng is a splitmix64 generator. The stream is drawn from by the scheduler
// and by tasks (pool, select and fault decisions); math/rand's source is
// instrumented by the race detector and every such pair of draws was
// reported as a race inside the harness, so the generator lives here, in
// uninstrumented functions.
type prng struct{ x uint64 }

//go:norace
func (p *prng) next() uint64 {
	p.x += 0x9e3779b97f4a7c15
	z := p.x
	z = (z ^ (z >> 30)) * 0xbf58476d1ce4e5b9
	z = (z ^ (z >> 27)) * 0x94d049bb133111eb
	return z ^ (z >> 31)
}

// intn returns a value in [0,n), n > 0 (multiply-shift; the bias is below 2^-32 for the bounds used here).
//
//go:norace
func (p *prng) intn(n int) int {
	return int((p.next() >> 32) * uint64(n) >> 32)
}

// NewChoices creates a random-mode stream.
func NewChoices(seed int64) *Choices {
	return &Choices{rng: prng{uint64(seed)*0x9e3779b97f4a7c15 + 0x632be59bd9b4e019}}
}

// NewReplay creates a replay-mode stream.
func NewReplay(list []Choice) *Choices {
	return &Choices{Replay: list, replay: true}
}

//go:norace
func (c *Choices) next(kind uint8) (Choice, bool) {
	for c.pos < len(c.Replay) {
		ch := c.Replay[c.pos]
		c.pos++
		if ch.K == kind {
			return ch, true
		}
		// kind mismatch: the run diverged from the recording (shrunk plan);
		// skip entries of other kinds until one matches.
	}
	return Choice{}, false
}

// Pick draws a value in [0,n).
//
//go:norace
func (c *Choices) Pick(kind uint8, n int) int {
	if n <= 1 {
		return 0
	}
	v := 0
	if c.replay {
		if ch, ok := c.next(kind); ok && ch.V >= 0 {
			v = int(ch.V)
			if v >= n {
				v = n - 1
			}
		}
	} else {
		v = c.rng.intn(n)
	}
	c.record(Choice{kind, int32(n), int32(v)})
	return v
}

//go:norace
func (c *Choices) record(ch Choice) {
	c.Counts[ch.K&15]++
	c.Rec = append(c.Rec, ch)
}

// pickTask chooses the next task among ready (sorted by id).
//
//go:norace
func (c *Choices) pickTask(ready []*Task, last int) int {
	n := len(ready)
	def := 0
	for i := 0; i < n; i++ {
		if ready[i].ID == last {
			def = i
			break
		}
	}
	k := def
	if n > 1 {
		if c.replay {
			if ch, ok := c.next(KSched); ok && ch.V >= 0 {
				for i := 0; i < n; i++ {
					if ready[i].ID == int(ch.V) {
						k = i
						break
					}
				}
			}
		} else {
			if c.KeepBias > 0 && ready[def].ID == last && c.rng.intn(1000) < c.KeepBias {
				k = def
			} else {
				k = c.rng.intn(n)
			}
		}
		c.record(Choice{KSched, int32(n), int32(ready[k].ID)})
	}
	return k
}

// SelectStart returns the index of the select case to try first.
//
//go:norace
func SelectStart(site, n int) int {
	s := cur
	if s == nil {
		return 0
	}
	raceDisable()
	v := s.Ch.Pick(KSelect, n)
	raceEnable()
	return v
}
