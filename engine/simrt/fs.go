package simrt

import (
	"errors"
	"io/fs"
	"os"
	"sort"
	"syscall"
	"time"
)

// FS is the simulated disk: a flat in-memory map path -> content. Writes
// through WriteFile are executed as truncate followed by chunked writes with a
// yield between steps, so a crash can land after any step.
type FS struct {
	s     *Sim
	files map[string]*fileNode
	// fault configuration
	Chunk     int           // bytes per write step (0: whole file)
	ReadDelay time.Duration // simulated time a whole-file read takes (slow disk)
	ReadErr   map[string]error
	WriteErr  map[string]error // returned before anything is written
	NoSpaceAt map[string]int   // ENOSPC after this many bytes
	// history
	Writes []WriteRec
	Reads  []string
}

type fileNode struct {
	data []byte
	mode os.FileMode
}

// WriteRec is one WriteFile call as the disk saw it.
type WriteRec struct {
	Path     string
	Len      int
	Steps    int
	StartSeq uint64
	EndSeq   uint64
	Done     bool
}

// NewFS creates an empty disk.
func NewFS(s *Sim) *FS {
	return &FS{s: s, files: map[string]*fileNode{}}
}

// Adopt moves the content of an earlier incarnation's disk into this one
// (durable state surviving a restart).
func (f *FS) Adopt(old *FS) {
	for k, v := range old.files {
		f.files[k] = &fileNode{data: append([]byte(nil), v.data...), mode: v.mode}
	}
}

// Put installs a file directly (driver use).
func (f *FS) Put(path string, data []byte) {
	f.files[path] = &fileNode{data: append([]byte(nil), data...), mode: 0644}
}

// Remove deletes a file (driver use).
func (f *FS) Remove(path string) { delete(f.files, path) }

// Get returns the content of a file (driver use).
func (f *FS) Get(path string) ([]byte, bool) {
	n, ok := f.files[path]
	if !ok {
		return nil, false
	}
	return append([]byte(nil), n.data...), true
}

// Paths lists files in sorted order.
func (f *FS) Paths() []string {
	var out []string
	for k := range f.files {
		out = append(out, k)
	}
	sort.Strings(out)
	return out
}

func curFS() *FS {
	if s := cur; s != nil {
		return s.FS
	}
	return nil
}

func notExist(op, path string) error {
	return &fs.PathError{Op: op, Path: path, Err: syscall.ENOENT}
}

// ReadFile replaces ioutil.ReadFile / os.ReadFile.
func ReadFile(path string) ([]byte, error) {
	f := curFS()
	if f == nil {
		return os.ReadFile(path)
	}
	Yield(siteFS)
	if f.ReadDelay > 0 {
		// a slow disk: the read takes simulated time; it counts as a stall in
		// progress, so nobody takes the start-up for finished meanwhile
		f.s.mu.Lock()
		f.s.stalling++
		f.s.mu.Unlock()
		time.Sleep(f.ReadDelay)
		f.s.mu.Lock()
		f.s.stalling--
		f.s.mu.Unlock()
		Yield(siteFS)
	}
	f.Reads = append(f.Reads, path)
	if e, ok := f.ReadErr[path]; ok {
		return nil, &fs.PathError{Op: "open", Path: path, Err: e}
	}
	n, ok := f.files[path]
	if !ok {
		return nil, notExist("open", path)
	}
	return append([]byte(nil), n.data...), nil
}

// WriteFile replaces ioutil.WriteFile / os.WriteFile: truncate, then write in
// chunks with a yield after every step.
func WriteFile(path string, data []byte, perm os.FileMode) error {
	f := curFS()
	if f == nil {
		return os.WriteFile(path, data, perm)
	}
	Yield(siteFS)
	if e, ok := f.WriteErr[path]; ok {
		return &fs.PathError{Op: "open", Path: path, Err: e}
	}
	rec := WriteRec{Path: path, Len: len(data), StartSeq: f.s.Seq}
	idx := len(f.Writes)
	f.Writes = append(f.Writes, rec)
	n, ok := f.files[path]
	if !ok {
		n = &fileNode{mode: perm}
		f.files[path] = n
	}
	n.data = n.data[:0:0] // truncate
	f.Writes[idx].Steps++
	Yield(siteFS)
	chunk := f.Chunk
	if chunk <= 0 {
		chunk = len(data)
	}
	limit, limited := f.NoSpaceAt[path]
	for off := 0; off < len(data); {
		end := off + chunk
		if end > len(data) {
			end = len(data)
		}
		if limited && end > limit {
			if limit > off {
				n.data = append(n.data, data[off:limit]...)
			}
			f.Writes[idx].EndSeq = f.s.Seq
			return &fs.PathError{Op: "write", Path: path, Err: syscall.ENOSPC}
		}
		n.data = append(n.data, data[off:end]...)
		off = end
		f.Writes[idx].Steps++
		Yield(siteFS)
	}
	f.Writes[idx].Done = true
	f.Writes[idx].EndSeq = f.s.Seq
	return nil
}

// File replaces os.File for the few uses vFlow has (log file, pid file).
type File struct {
	f      *FS
	path   string
	real   *os.File
	append bool
	off    int
}

// OpenFile replaces os.OpenFile.
func OpenFile(path string, flag int, perm os.FileMode) (*File, error) {
	f := curFS()
	if f == nil {
		r, err := os.OpenFile(path, flag, perm)
		if err != nil {
			return nil, err
		}
		return &File{real: r}, nil
	}
	Yield(siteFS)
	if e, ok := f.WriteErr[path]; ok {
		return nil, &fs.PathError{Op: "open", Path: path, Err: e}
	}
	n, ok := f.files[path]
	if !ok {
		if flag&os.O_CREATE == 0 {
			return nil, notExist("open", path)
		}
		n = &fileNode{mode: perm}
		f.files[path] = n
	}
	if flag&os.O_TRUNC != 0 {
		n.data = nil
	}
	return &File{f: f, path: path, append: flag&os.O_APPEND != 0}, nil
}

// Create replaces os.Create.
func Create(path string) (*File, error) {
	return OpenFile(path, os.O_RDWR|os.O_CREATE|os.O_TRUNC, 0666)
}

// Open replaces os.Open.
func Open(path string) (*File, error) { return OpenFile(path, os.O_RDONLY, 0) }

// Write writes at the handle's offset (at the end with O_APPEND), like a
// sequential writer on a real file: existing content beyond what is written
// stays unless the file was opened with O_TRUNC.
func (fl *File) Write(b []byte) (int, error) {
	if fl.real != nil {
		return fl.real.Write(b)
	}
	n, ok := fl.f.files[fl.path]
	if !ok {
		return 0, errors.New("file removed")
	}
	Yield(siteFS)
	if fl.append {
		fl.off = len(n.data)
	}
	for len(n.data) < fl.off {
		n.data = append(n.data, 0)
	}
	k := copy(n.data[fl.off:], b)
	n.data = append(n.data, b[k:]...)
	fl.off += len(b)
	return len(b), nil
}

// Sync mirrors os.File (the simulated disk keeps what was written).
func (fl *File) Sync() error {
	if fl.real != nil {
		return fl.real.Sync()
	}
	return nil
}

// WriteString mirrors os.File.
func (fl *File) WriteString(s string) (int, error) { return fl.Write([]byte(s)) }

// Read is not supported on simulated files beyond whole-file reads.
func (fl *File) Read(b []byte) (int, error) {
	if fl.real != nil {
		return fl.real.Read(b)
	}
	return 0, errors.New("simrt: File.Read not simulated")
}

// Close mirrors os.File.
func (fl *File) Close() error {
	if fl.real != nil {
		return fl.real.Close()
	}
	return nil
}

// Name mirrors os.File.
func (fl *File) Name() string { return fl.path }

type fileInfo struct {
	name string
	size int64
	mode os.FileMode
}

func (i fileInfo) Name() string       { return i.name }
func (i fileInfo) Size() int64        { return i.size }
func (i fileInfo) Mode() os.FileMode  { return i.mode }
func (i fileInfo) ModTime() time.Time { return time.Time{} }
func (i fileInfo) IsDir() bool        { return false }
func (i fileInfo) Sys() interface{}   { return nil }

// Stat replaces os.Stat.
func Stat(path string) (os.FileInfo, error) {
	f := curFS()
	if f == nil {
		return os.Stat(path)
	}
	Yield(siteFS)
	n, ok := f.files[path]
	if !ok {
		return nil, notExist("stat", path)
	}
	return fileInfo{name: path, size: int64(len(n.data)), mode: n.mode}, nil
}
