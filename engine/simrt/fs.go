package simrt

import (
	"errors"
	"io"
	"io/fs"
	"os"
	"sort"
	"strconv"
	"strings"
	"syscall"
	"time"
)

// FS is the simulated disk: a flat in-memory map path -> content. Writes
// through WriteFile are executed as truncate followed by chunked writes with a
// yield between steps, so a crash can land after any step.
type FS struct {
	s     *Sim
	files map[string]*fileNode
	// fault configuration
	Chunk     int           // bytes per write step (0: whole file)
	ReadDelay time.Duration // simulated time a whole-file read takes (slow disk)
	tempSeq   int
	ReadErr   map[string]error
	WriteErr  map[string]error // returned before anything is written
	NoSpaceAt map[string]int   // ENOSPC after this many bytes
	// deployment layout: symbolic links (path -> target, relative targets are
	// resolved against the link's directory) and mount points (a rename from
	// one mount to another fails with EXDEV; everything else is "/")
	links  map[string]string
	Mounts []string
	// history
	Writes []WriteRec
	Reads  []string
}

type fileNode struct {
	data []byte
	mode os.FileMode
}

// WriteRec is one WriteFile call as the disk saw it.
type WriteRec struct {
	Path     string
	Len      int
	Steps    int
	StartSeq uint64
	EndSeq   uint64
	Done     bool
}

// NewFS creates an empty disk.
func NewFS(s *Sim) *FS {
	return &FS{s: s, files: map[string]*fileNode{}}
}

// Adopt moves the content of an earlier incarnation's disk into this one
// (durable state surviving a restart).
func (f *FS) Adopt(old *FS) {
	for k, v := range old.files {
		f.files[k] = &fileNode{data: append([]byte(nil), v.data...), mode: v.mode}
	}
	for k, v := range old.links {
		f.PutSymlink(k, v)
	}
}

// PutSymlink installs a symbolic link (driver use).
func (f *FS) PutSymlink(path, target string) {
	if f.links == nil {
		f.links = map[string]string{}
	}
	f.links[path] = target
}

// resolve follows symbolic links.
func (f *FS) resolve(path string) string {
	for hops := 0; hops < 8; hops++ {
		t, ok := f.links[path]
		if !ok {
			return path
		}
		if !strings.HasPrefix(t, "/") {
			dir := "/"
			if i := strings.LastIndex(path, "/"); i > 0 {
				dir = path[:i+1]
			}
			t = dir + t
		}
		path = t
	}
	return path
}

// mountOf names the file system a path lives on.
func (f *FS) mountOf(path string) string {
	best := "/"
	for _, m := range f.Mounts {
		if (path == m || strings.HasPrefix(path, strings.TrimSuffix(m, "/")+"/")) && len(m) > len(best) {
			best = m
		}
	}
	return best
}

// TempDir replaces os.TempDir.
func TempDir() string {
	s := cur
	if s == nil {
		return os.TempDir()
	}
	if d := s.Boot.Env["TMPDIR"]; d != "" {
		return d
	}
	return "/tmp"
}

// Lstat replaces os.Lstat.
func Lstat(path string) (os.FileInfo, error) {
	f := curFS()
	if f == nil {
		return os.Lstat(path)
	}
	if t, ok := f.links[path]; ok {
		Yield(siteFS)
		return fileInfo{name: path, size: int64(len(t)), mode: os.ModeSymlink | 0777}, nil
	}
	return Stat(path)
}

// Put installs a file directly (driver use).
func (f *FS) Put(path string, data []byte) {
	f.files[path] = &fileNode{data: append([]byte(nil), data...), mode: 0644}
}

// Remove deletes a file (driver use).
func (f *FS) Remove(path string) { delete(f.files, path) }

// Get returns the content of a file (driver use).
func (f *FS) Get(path string) ([]byte, bool) {
	n, ok := f.files[path]
	if !ok {
		return nil, false
	}
	return append([]byte(nil), n.data...), true
}

// Paths lists files in sorted order.
func (f *FS) Paths() []string {
	var out []string
	for k := range f.files {
		out = append(out, k)
	}
	sort.Strings(out)
	return out
}

func curFS() *FS {
	if s := cur; s != nil {
		return s.FS
	}
	return nil
}

func notExist(op, path string) error {
	return &fs.PathError{Op: op, Path: path, Err: syscall.ENOENT}
}

// ReadFile replaces ioutil.ReadFile / os.ReadFile.
func ReadFile(path string) ([]byte, error) {
	f := curFS()
	if f == nil {
		return os.ReadFile(path)
	}
	Yield(siteFS)
	if f.ReadDelay > 0 {
		// a slow disk: the read takes simulated time; it counts as a stall in
		// progress, so nobody takes the start-up for finished meanwhile
		f.s.mu.Lock()
		f.s.stalling++
		f.s.mu.Unlock()
		time.Sleep(f.ReadDelay)
		f.s.mu.Lock()
		f.s.stalling--
		f.s.mu.Unlock()
		Yield(siteFS)
	}
	f.Reads = append(f.Reads, path)
	if e, ok := f.ReadErr[path]; ok {
		return nil, &fs.PathError{Op: "open", Path: path, Err: e}
	}
	n, ok := f.files[f.resolve(path)]
	if !ok {
		return nil, notExist("open", path)
	}
	return append([]byte(nil), n.data...), nil
}

// WriteFile replaces ioutil.WriteFile / os.WriteFile: truncate, then write in
// chunks with a yield after every step.
func WriteFile(path string, data []byte, perm os.FileMode) error {
	f := curFS()
	if f == nil {
		return os.WriteFile(path, data, perm)
	}
	Yield(siteFS)
	if e, ok := f.WriteErr[path]; ok {
		return &fs.PathError{Op: "open", Path: path, Err: e}
	}
	rec := WriteRec{Path: path, Len: len(data), StartSeq: f.s.Seq}
	idx := len(f.Writes)
	f.Writes = append(f.Writes, rec)
	tgt := f.resolve(path)
	n, ok := f.files[tgt]
	if !ok {
		n = &fileNode{mode: perm}
		f.files[tgt] = n
	}
	n.data = n.data[:0:0] // truncate
	f.Writes[idx].Steps++
	Yield(siteFS)
	chunk := f.Chunk
	if chunk <= 0 {
		chunk = len(data)
	}
	limit, limited := f.NoSpaceAt[path]
	for off := 0; off < len(data); {
		end := off + chunk
		if end > len(data) {
			end = len(data)
		}
		if limited && end > limit {
			if limit > off {
				n.data = append(n.data, data[off:limit]...)
			}
			f.Writes[idx].EndSeq = f.s.Seq
			return &fs.PathError{Op: "write", Path: path, Err: syscall.ENOSPC}
		}
		n.data = append(n.data, data[off:end]...)
		off = end
		f.Writes[idx].Steps++
		Yield(siteFS)
	}
	f.Writes[idx].Done = true
	f.Writes[idx].EndSeq = f.s.Seq
	return nil
}

// File replaces os.File for the few uses vFlow has (log file, pid file).
type File struct {
	f      *FS
	path   string
	real   *os.File
	append bool
	off    int
}

// OpenFile replaces os.OpenFile.
func OpenFile(path string, flag int, perm os.FileMode) (*File, error) {
	f := curFS()
	if f == nil {
		r, err := os.OpenFile(path, flag, perm)
		if err != nil {
			return nil, err
		}
		return &File{real: r}, nil
	}
	Yield(siteFS)
	if e, ok := f.WriteErr[path]; ok {
		return nil, &fs.PathError{Op: "open", Path: path, Err: e}
	}
	path = f.resolve(path)
	n, ok := f.files[path]
	if ok && flag&os.O_CREATE != 0 && flag&os.O_EXCL != 0 {
		return nil, &fs.PathError{Op: "open", Path: path, Err: syscall.EEXIST}
	}
	if !ok {
		if flag&os.O_CREATE == 0 {
			return nil, notExist("open", path)
		}
		n = &fileNode{mode: perm}
		f.files[path] = n
	}
	if flag&os.O_TRUNC != 0 {
		n.data = nil
	}
	return &File{f: f, path: path, append: flag&os.O_APPEND != 0}, nil
}

// Create replaces os.Create.
func Create(path string) (*File, error) {
	return OpenFile(path, os.O_RDWR|os.O_CREATE|os.O_TRUNC, 0666)
}

// Open replaces os.Open.
func Open(path string) (*File, error) { return OpenFile(path, os.O_RDONLY, 0) }

// Write writes at the handle's offset (at the end with O_APPEND), like a
// sequential writer on a real file: existing content beyond what is written
// stays unless the file was opened with O_TRUNC.
func (fl *File) Write(b []byte) (int, error) {
	if fl.real != nil {
		return fl.real.Write(b)
	}
	n, ok := fl.f.files[fl.path]
	if !ok {
		return 0, errors.New("file removed")
	}
	Yield(siteFS)
	if fl.append {
		fl.off = len(n.data)
	}
	for len(n.data) < fl.off {
		n.data = append(n.data, 0)
	}
	full := false
	if limit, limited := fl.f.NoSpaceAt[fl.path]; limited && fl.off+len(b) > limit {
		// the disk fills up: what fits is written, the rest is refused
		room := limit - fl.off
		if room < 0 {
			room = 0
		}
		b = b[:room]
		full = true
	}
	k := copy(n.data[fl.off:], b)
	n.data = append(n.data, b[k:]...)
	fl.off += len(b)
	if full {
		return len(b), &fs.PathError{Op: "write", Path: fl.path, Err: syscall.ENOSPC}
	}
	return len(b), nil
}

// Sync mirrors os.File (the simulated disk keeps what was written).
func (fl *File) Sync() error {
	if fl.real != nil {
		return fl.real.Sync()
	}
	return nil
}

// WriteString mirrors os.File.
func (fl *File) WriteString(s string) (int, error) { return fl.Write([]byte(s)) }

// Read reads from the handle's offset.
func (fl *File) Read(b []byte) (int, error) {
	if fl.real != nil {
		return fl.real.Read(b)
	}
	n, ok := fl.f.files[fl.path]
	if !ok {
		return 0, errors.New("file removed")
	}
	Yield(siteFS)
	if e, ok := fl.f.ReadErr[fl.path]; ok {
		return 0, &fs.PathError{Op: "read", Path: fl.path, Err: e}
	}
	if fl.off >= len(n.data) {
		return 0, io.EOF
	}
	k := copy(b, n.data[fl.off:])
	fl.off += k
	return k, nil
}

// ReadAt / WriteAt / Seek / Truncate / Stat / Chmod mirror os.File.
func (fl *File) ReadAt(b []byte, off int64) (int, error) {
	if fl.real != nil {
		return fl.real.ReadAt(b, off)
	}
	n, ok := fl.f.files[fl.path]
	if !ok {
		return 0, errors.New("file removed")
	}
	Yield(siteFS)
	if off >= int64(len(n.data)) {
		return 0, io.EOF
	}
	k := copy(b, n.data[off:])
	if k < len(b) {
		return k, io.EOF
	}
	return k, nil
}

func (fl *File) WriteAt(b []byte, off int64) (int, error) {
	if fl.real != nil {
		return fl.real.WriteAt(b, off)
	}
	n, ok := fl.f.files[fl.path]
	if !ok {
		return 0, errors.New("file removed")
	}
	Yield(siteFS)
	for int64(len(n.data)) < off {
		n.data = append(n.data, 0)
	}
	k := copy(n.data[off:], b)
	n.data = append(n.data, b[k:]...)
	return len(b), nil
}

func (fl *File) Seek(offset int64, whence int) (int64, error) {
	if fl.real != nil {
		return fl.real.Seek(offset, whence)
	}
	n, ok := fl.f.files[fl.path]
	if !ok {
		return 0, errors.New("file removed")
	}
	switch whence {
	case io.SeekStart:
	case io.SeekCurrent:
		offset += int64(fl.off)
	case io.SeekEnd:
		offset += int64(len(n.data))
	}
	if offset < 0 {
		return 0, &fs.PathError{Op: "seek", Path: fl.path, Err: syscall.EINVAL}
	}
	fl.off = int(offset)
	return offset, nil
}

func (fl *File) Truncate(size int64) error {
	if fl.real != nil {
		return fl.real.Truncate(size)
	}
	return truncateNode(fl.f, fl.path, size)
}

func (fl *File) Stat() (os.FileInfo, error) {
	if fl.real != nil {
		return fl.real.Stat()
	}
	return Stat(fl.path)
}

func (fl *File) Chmod(os.FileMode) error { return nil }

func truncateNode(f *FS, path string, size int64) error {
	Yield(siteFS)
	n, ok := f.files[path]
	if !ok {
		return notExist("truncate", path)
	}
	for int64(len(n.data)) < size {
		n.data = append(n.data, 0)
	}
	n.data = n.data[:size]
	return nil
}

// Truncate replaces os.Truncate.
func Truncate(path string, size int64) error {
	f := curFS()
	if f == nil {
		return os.Truncate(path, size)
	}
	return truncateNode(f, path, size)
}

// Rename replaces os.Rename: the file moves in one step (replacing the target).
func Rename(oldpath, newpath string) error {
	f := curFS()
	if f == nil {
		return os.Rename(oldpath, newpath)
	}
	Yield(siteFS)
	n, ok := f.files[oldpath]
	if !ok {
		return &os.LinkError{Op: "rename", Old: oldpath, New: newpath, Err: syscall.ENOENT}
	}
	if e, ok := f.WriteErr[newpath]; ok {
		return &os.LinkError{Op: "rename", Old: oldpath, New: newpath, Err: e}
	}
	if f.mountOf(oldpath) != f.mountOf(newpath) {
		return &os.LinkError{Op: "rename", Old: oldpath, New: newpath, Err: syscall.EXDEV}
	}
	delete(f.links, newpath)
	f.files[newpath] = n
	delete(f.files, oldpath)
	Yield(siteFS)
	return nil
}

// Remove / RemoveAll replace os.Remove / os.RemoveAll.
func Remove(path string) error {
	f := curFS()
	if f == nil {
		return os.Remove(path)
	}
	Yield(siteFS)
	if _, ok := f.files[path]; !ok {
		return notExist("remove", path)
	}
	delete(f.files, path)
	return nil
}

func RemoveAll(path string) error {
	f := curFS()
	if f == nil {
		return os.RemoveAll(path)
	}
	Yield(siteFS)
	for p := range f.files {
		if p == path || strings.HasPrefix(p, strings.TrimSuffix(path, "/")+"/") {
			delete(f.files, p)
		}
	}
	return nil
}

// MkdirAll / Mkdir replace os.MkdirAll / os.Mkdir: the simulated disk has no directories to create.
func MkdirAll(path string, perm os.FileMode) error {
	if curFS() == nil {
		return os.MkdirAll(path, perm)
	}
	return nil
}

func Mkdir(path string, perm os.FileMode) error {
	if curFS() == nil {
		return os.Mkdir(path, perm)
	}
	return nil
}

// Chmod replaces os.Chmod.
func Chmod(path string, mode os.FileMode) error {
	f := curFS()
	if f == nil {
		return os.Chmod(path, mode)
	}
	if _, ok := f.files[path]; !ok {
		return notExist("chmod", path)
	}
	return nil
}

// CreateTemp replaces os.CreateTemp / ioutil.TempFile: names are numbered, not random.
func CreateTemp(dir, pattern string) (*File, error) {
	f := curFS()
	if f == nil {
		r, err := os.CreateTemp(dir, pattern)
		if err != nil {
			return nil, err
		}
		return &File{real: r, path: r.Name()}, nil
	}
	if dir == "" {
		dir = TempDir()
	}
	for {
		f.tempSeq++
		num := strconv.Itoa(f.tempSeq)
		name := pattern + num
		if i := strings.LastIndex(pattern, "*"); i >= 0 {
			name = pattern[:i] + num + pattern[i+1:]
		}
		p := strings.TrimSuffix(dir, "/") + "/" + name
		if _, exists := f.files[p]; !exists {
			return OpenFile(p, os.O_RDWR|os.O_CREATE|os.O_EXCL, 0600)
		}
	}
}

// Close mirrors os.File.
func (fl *File) Close() error {
	if fl.real != nil {
		return fl.real.Close()
	}
	return nil
}

// Name mirrors os.File.
func (fl *File) Name() string { return fl.path }

type fileInfo struct {
	name string
	size int64
	mode os.FileMode
}

func (i fileInfo) Name() string       { return i.name }
func (i fileInfo) Size() int64        { return i.size }
func (i fileInfo) Mode() os.FileMode  { return i.mode }
func (i fileInfo) ModTime() time.Time { return time.Time{} }
func (i fileInfo) IsDir() bool        { return false }
func (i fileInfo) Sys() interface{}   { return nil }

// Stat replaces os.Stat.
func Stat(path string) (os.FileInfo, error) {
	f := curFS()
	if f == nil {
		return os.Stat(path)
	}
	Yield(siteFS)
	n, ok := f.files[f.resolve(path)]
	if !ok {
		return nil, notExist("stat", path)
	}
	return fileInfo{name: path, size: int64(len(n.data)), mode: n.mode}, nil
}
