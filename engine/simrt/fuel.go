package simrt

// Fuel bounds the work done between two scheduling points: the instrumenter
// puts Tick() at the head of every loop body, the scheduler refills the tank
// whenever it releases a task and library-level harnesses refill it before
// each call. Running dry raises FuelPanic, which the harness classifies as a
// hang (a loop that makes no progress) without losing the worker process.

// FuelPanic is the panic value raised when a step runs out of fuel.
type FuelPanic struct{ Limit int64 }

func (f FuelPanic) Error() string { return "simrt: step exceeded its loop-iteration budget (no progress)" }

var (
	fuel      int64
	fuelLimit int64 = 20000000
	fuelOn    bool
)

// SetFuel enables the budget (iterations per step); 0 disables it.
func SetFuel(n int64) {
	fuelLimit = n
	fuelOn = n > 0
	fuel = n
}

// Refill resets the tank.
//
//go:norace
func Refill() { fuel = fuelLimit }

// Tick is called at the head of every instrumented loop body.
//
//go:norace
func Tick() {
	if !fuelOn {
		return
	}
	fuel--
	if fuel < 0 {
		fuel = fuelLimit
		panic(FuelPanic{fuelLimit})
	}
}
