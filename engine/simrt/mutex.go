package simrt

import (
	"strconv"
	"unsafe"
)

// Program mutexes. The instrumenter turns X.Lock() / X.RLock() / X.Unlock() /
// X.RUnlock() on sync.Mutex and sync.RWMutex into the calls below. A task
// never blocks inside the real mutex: it tries, and when the mutex is taken
// it parks in a state the scheduler does not pick until some program mutex
// has been released. Tasks may therefore be descheduled while they hold a
// mutex (every interleaving inside a critical section is reachable), a
// circular wait shows up as tasks that stay in that state for ever, and
// nothing ever waits inside sync.Mutex, which the fake clock does not treat
// as blocked.
//
// sync.RWMutex gives a waiting writer precedence over new readers (a second
// RLock by a goroutine that already holds one blocks once a writer waits);
// TryRLock alone would not show that, so the number of waiting writers per
// mutex is kept here and a read lock is refused while it is not zero.

type mutexLike interface {
	Lock()
	TryLock() bool
	Unlock()
}

type rwLike interface {
	RLock()
	TryRLock() bool
	RUnlock()
}

var lastDeadlock string

// TakeDeadlock returns and clears the description of the last deadlock found.
func TakeDeadlock() string {
	d := lastDeadlock
	lastDeadlock = ""
	return d
}

//go:norace
func ifaceData(i interface{}) uintptr {
	return (*[2]uintptr)(unsafe.Pointer(&i))[1]
}

//go:norace
func (s *Sim) taskHere() *Task {
	raceDisable()
	t := s.lookup(goid())
	raceEnable()
	return t
}

//go:norace
func (s *Sim) addPendingW(key uintptr, d int) {
	raceDisable()
	s.mu.Lock()
	if s.pendingW == nil {
		s.pendingW = map[uintptr]int{}
	}
	s.pendingW[key] += d
	if s.pendingW[key] <= 0 {
		delete(s.pendingW, key)
	}
	s.mu.Unlock()
	raceEnable()
}

//go:norace
func (s *Sim) writerWaits(key uintptr) bool {
	raceDisable()
	s.mu.Lock()
	n := s.pendingW[key]
	s.mu.Unlock()
	raceEnable()
	return n > 0
}

// waitForRelease parks the calling task until a program mutex is released.
//
//go:norace
func (s *Sim) waitForRelease(t *Task, site int) {
	raceDisable()
	s.parkAs(t, site, tLockWait)
	raceEnable()
}

// released makes every task that waits for a mutex eligible again.
//
//go:norace
func (s *Sim) released() {
	raceDisable()
	s.mu.Lock()
	for i := 0; i < s.ntasks; i++ {
		if s.tasks[i].state == tLockWait {
			s.tasks[i].state = tParked
		}
	}
	s.mu.Unlock()
	raceEnable()
}

// lockWaiters lists the tasks that wait for a program mutex.
//
//go:norace
func (s *Sim) lockWaiters() string {
	s.mu.Lock()
	defer s.mu.Unlock()
	d := ""
	for i := 0; i < s.ntasks; i++ {
		if t := s.tasks[i]; t.state == tLockWait {
			if d != "" {
				d += ", "
			}
			d += t.Name + " at site " + strconv.Itoa(int(t.site))
		}
	}
	return d
}

// MuLock replaces X.Lock().
func MuLock(site int, m mutexLike) {
	s := cur
	var t *Task
	if s != nil {
		t = s.taskHere()
	}
	if t == nil {
		m.Lock()
		return
	}
	Yield(site)
	if m.TryLock() {
		return
	}
	key := ifaceData(m)
	s.addPendingW(key, 1)
	for {
		s.waitForRelease(t, site)
		if m.TryLock() {
			s.addPendingW(key, -1)
			return
		}
	}
}

// MuRLock replaces X.RLock().
func MuRLock(site int, m rwLike) {
	s := cur
	var t *Task
	if s != nil {
		t = s.taskHere()
	}
	if t == nil {
		m.RLock()
		return
	}
	Yield(site)
	key := ifaceData(m)
	for {
		if !s.writerWaits(key) && m.TryRLock() {
			return
		}
		s.waitForRelease(t, site)
	}
}

// MuUnlock replaces X.Unlock() (also in its deferred form).
func MuUnlock(site int, m mutexLike) {
	m.Unlock()
	if s := cur; s != nil {
		s.released()
		Yield(site)
	}
}

// MuRUnlock replaces X.RUnlock() (also in its deferred form).
func MuRUnlock(site int, m rwLike) {
	m.RUnlock()
	if s := cur; s != nil {
		s.released()
		Yield(site)
	}
}
