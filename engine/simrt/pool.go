package simrt

import "unsafe"

// Pool replaces sync.Pool: deterministic, with a per-run reuse policy drawn
// from the choice stream and poisoning of returned buffers.
type Pool struct {
	New  func() interface{}
	free [poolCap]interface{}
	n    int
	gen  uint64
}

const poolCap = 512

// Pool policies.
const (
	PoolLIFO = iota
	PoolFIFO
	PoolRandom
	PoolFresh
)

// PoolCfg is the per-run pool configuration and statistics.
type PoolCfg struct {
	Policy    int
	Poison    bool
	Gets      int
	Puts      int
	Reused    int
	DoublePut int
}

// PoolConf is read by Get/Put (set by the driver per run).
var PoolConf PoolCfg

// PoisonByte is written over buffers returned to a pool.
const PoisonByte = 0xA5

//go:norace
func (p *Pool) sync() {
	s := cur
	var g uint64
	if s != nil {
		g = s.gen
	}
	if p.gen != g {
		for i := 0; i < p.n; i++ {
			p.free[i] = nil
		}
		p.n = 0
		p.gen = g
	}
}

// Get mirrors sync.Pool.Get.
//
//go:norace
func (p *Pool) Get() interface{} {
	Yield(sitePool)
	raceDisable()
	p.sync()
	PoolConf.Gets++
	n := p.n
	if n == 0 || PoolConf.Policy == PoolFresh {
		raceEnable()
		if p.New == nil {
			return nil
		}
		return p.New()
	}
	k := n - 1
	switch PoolConf.Policy {
	case PoolFIFO:
		k = 0
	case PoolRandom:
		if s := cur; s != nil {
			k = s.Ch.Pick(KPool, n)
		}
	}
	v := p.free[k]
	for i := k; i < n-1; i++ {
		p.free[i] = p.free[i+1]
	}
	p.free[n-1] = nil
	p.n--
	PoolConf.Reused++
	raceEnable()
	if b, ok := v.([]byte); ok && cap(b) > 0 {
		poolAcquire(unsafe.Pointer(&b[:1][0]))
	}
	return v
}

// Put mirrors sync.Pool.Put.
//
//go:norace
func (p *Pool) Put(v interface{}) {
	Yield(sitePool)
	if b, ok := v.([]byte); ok && cap(b) > 0 {
		poolRelease(unsafe.Pointer(&b[:1][0]))
	}
	raceDisable()
	p.sync()
	PoolConf.Puts++
	if b, ok := v.([]byte); ok && cap(b) > 0 {
		b0 := &b[:1][0]
		for i := 0; i < p.n; i++ {
			if fb, ok := p.free[i].([]byte); ok && cap(fb) > 0 && &fb[:1][0] == b0 {
				PoolConf.DoublePut++
			}
		}
		if PoolConf.Poison {
			bb := b[:cap(b)]
			for i := range bb {
				bb[i] = PoisonByte
			}
		}
	}
	if p.n < poolCap {
		p.free[p.n] = v
		p.n++
	}
	raceEnable()
}
