//go:build !race

package simrt

import "unsafe"

// RaceBuild reports whether the binary was built with -race.
const RaceBuild = false

func raceDisable() {}
func raceEnable()  {}

// RaceSyncOn / RaceSyncOff are no-ops without the race detector.
func RaceSyncOn()  {}
func RaceSyncOff() {}

func poolRelease(p unsafe.Pointer) {}
func poolAcquire(p unsafe.Pointer) {}

func bootRelease() {}
func bootAcquire() {}

func runRelease() {}
func runAcquire() {}

// BootAcquire: see race_on.go.
func BootAcquire() {}
