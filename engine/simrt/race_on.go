//go:build race

package simrt

import (
	"runtime"
	"unsafe"
)

// RaceBuild reports whether the binary was built with -race.
const RaceBuild = true

func raceDisable() { runtime.RaceDisable() }
func raceEnable()  { runtime.RaceEnable() }

// RaceSyncOn / RaceSyncOff let the driver run program code (e.g. the stats
// handler) on the scheduler goroutine with synchronisation events visible to
// the detector, as they would be on a goroutine of the program.
func RaceSyncOn()  { runtime.RaceEnable() }
func RaceSyncOff() { runtime.RaceDisable() }

var poolRaceHash [128]uint64

func poolRaceAddr(p unsafe.Pointer) unsafe.Pointer {
	h := uint32((uint64(uint32(uintptr(p))) * 0x85ebca6b) >> 16)
	return unsafe.Pointer(&poolRaceHash[h%uint32(len(poolRaceHash))])
}

// poolRelease / poolAcquire give the detector the happens-before edge
// sync.Pool gives it: Put(x) happens before the Get that returns x.
func poolRelease(p unsafe.Pointer) { runtime.RaceReleaseMerge(poolRaceAddr(p)) }
func poolAcquire(p unsafe.Pointer) { runtime.RaceAcquire(poolRaceAddr(p)) }

var bootSyncWord uint64

// bootRelease / bootAcquire order everything a task did before the collector
// finished booting before everything any task does afterwards: vFlow orders
// start-up by time (sockets are bound and caches loaded before traffic is
// served), which the detector cannot know.
func bootRelease() { runtime.RaceReleaseMerge(unsafe.Pointer(&bootSyncWord)) }
func bootAcquire() { runtime.RaceAcquire(unsafe.Pointer(&bootSyncWord)) }

var runSyncWord uint64

// runRelease / runAcquire order everything the tasks of one simulated run did
// before everything the next run in the same process does. Runs are strictly
// sequential, but the hand-offs that make them so are hidden from the
// detector, and package-level state of vFlow (information model, flags) is
// touched by every run.
func runRelease() { runtime.RaceReleaseMerge(unsafe.Pointer(&runSyncWord)) }
func runAcquire() { runtime.RaceAcquire(unsafe.Pointer(&runSyncWord)) }

// BootAcquire lets a harness task that is about to call program code observe
// everything the program did while it was starting (program tasks do this
// on their own when they are first scheduled after the start-up).
func BootAcquire() { bootAcquire() }
