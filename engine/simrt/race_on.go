//go:build race

package simrt

import "runtime"

// RaceBuild reports whether the binary was built with -race.
const RaceBuild = true

func raceDisable() { runtime.RaceDisable() }
func raceEnable()  { runtime.RaceEnable() }
