//go:build race

package simrt

import (
	"runtime"
	"unsafe"
)

// RaceBuild reports whether the binary was built with -race.
const RaceBuild = true

func raceDisable() { runtime.RaceDisable() }
func raceEnable()  { runtime.RaceEnable() }

// RaceSyncOn / RaceSyncOff let the driver run program code (e.g. the stats
// handler) on the scheduler goroutine with synchronisation events visible to
// the detector, as they would be on a goroutine of the program.
func RaceSyncOn()  { runtime.RaceEnable() }
func RaceSyncOff() { runtime.RaceDisable() }

var poolRaceHash [128]uint64

func poolRaceAddr(p unsafe.Pointer) unsafe.Pointer {
	h := uint32((uint64(uint32(uintptr(p))) * 0x85ebca6b) >> 16)
	return unsafe.Pointer(&poolRaceHash[h%uint32(len(poolRaceHash))])
}

// poolRelease / poolAcquire give the detector the happens-before edge
// sync.Pool gives it: Put(x) happens before the Get that returns x.
func poolRelease(p unsafe.Pointer) { runtime.RaceReleaseMerge(poolRaceAddr(p)) }
func poolAcquire(p unsafe.Pointer) { runtime.RaceAcquire(poolRaceAddr(p)) }
