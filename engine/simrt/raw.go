package simrt

import (
	"errors"
	"syscall"
	"time"
)

// RawPacket is one packet handed to the kernel through the raw socket.
type RawPacket struct {
	FD     int
	Family int
	To     []byte
	Data   []byte
	At     time.Duration
	Seq    uint64
}

// RawNet records raw-socket traffic (the mirror feature).
type RawNet struct {
	s       *Sim
	Packets []RawPacket
	nfd     int
	fams    [64]int
	SendErr error
	SockErr error
	// SendDelay: the socket's send buffer is full, each send blocks this long
	SendDelay time.Duration
}

// Socket replaces syscall.Socket.
func Socket(domain, typ, proto int) (int, error) {
	s := cur
	if s == nil {
		return syscall.Socket(domain, typ, proto)
	}
	Yield(siteRaw)
	r := s.Raw
	if r.SockErr != nil {
		return -1, r.SockErr
	}
	if r.nfd >= len(r.fams) {
		return -1, syscall.EMFILE
	}
	r.fams[r.nfd] = domain
	r.nfd++
	return 1000 + r.nfd - 1, nil
}

// Sendto replaces syscall.Sendto.
func Sendto(fd int, p []byte, flags int, to syscall.Sockaddr) error {
	s := cur
	if s == nil {
		return syscall.Sendto(fd, p, flags, to)
	}
	Yield(siteRaw)
	r := s.Raw
	if fd < 1000 || fd >= 1000+r.nfd {
		return syscall.EBADF
	}
	if r.SendErr != nil {
		return r.SendErr
	}
	if r.SendDelay > 0 {
		// a blocking system call: counts as a stall in progress, nobody takes
		// the traffic for processed meanwhile
		s.mu.Lock()
		s.stalling++
		s.mu.Unlock()
		time.Sleep(r.SendDelay)
		s.mu.Lock()
		s.stalling--
		s.mu.Unlock()
		Yield(siteRaw)
	}
	var dst []byte
	switch a := to.(type) {
	case *syscall.SockaddrInet4:
		dst = append(dst, a.Addr[:]...)
	case *syscall.SockaddrInet6:
		dst = append(dst, a.Addr[:]...)
	default:
		return errors.New("simrt: bad sockaddr")
	}
	r.Packets = append(r.Packets, RawPacket{FD: fd, Family: r.fams[fd-1000], To: dst, Data: append([]byte(nil), p...), At: s.Now(), Seq: s.Seq})
	Yield(siteRaw)
	return nil
}

// CloseFD replaces syscall.Close.
func CloseFD(fd int) error {
	if cur == nil {
		return syscall.Close(fd)
	}
	return nil
}
