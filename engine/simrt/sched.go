// Package simrt is the deterministic-simulation runtime that the instrumented
// copy of vFlow is linked against. It owns every source of nondeterminism:
// goroutine scheduling (seeded cooperative scheduler over parked goroutines),
// the UDP sockets, the sink connection, the disk, buffer pools, signals,
// exit, environment and flags. Time is owned by the testing/synctest bubble
// every run executes in.
//
// Rules kept throughout this package (see DESIGN.md 3.10): functions on the
// yield path are //go:norace, shared harness state lives in fixed arrays (no
// maps, append or copy on shared slices), and every park/release happens
// between raceDisable/raceEnable so the race detector sees only the program's
// own synchronisation.
package simrt

import (
	"fmt"
	"runtime"
	"strconv"
	"strings"
	"sync"
	"testing/synctest"
	"time"
)

// MaxTasks bounds the number of goroutines of the system under test per run.
const MaxTasks = 1024

const (
	tNew = iota
	tRunning
	tParked
	tDone
	tLockWait // waits for a program mutex: not eligible until some mutex is released
)

// Task is one goroutine of the system under test (or of the harness).
type Task struct {
	ID      int
	Name    string
	Harness bool
	gid     uint64
	wake    chan struct{}
	state   int32
	site    int32
	depth   int32
	kill    bool
	bootAcq bool
	stall   time.Duration
	stallOK bool // StallFilter matched at the last park
	Panic   interface{}
	Stack   string
}

// Step is one scheduling decision.
type Step struct {
	Seq  uint64
	Task int32
	Site int32
	At   int64 // simulated ns since start of bubble
}

// Sim is the per-run simulator state.
type Sim struct {
	// IdleLimit: Run gives up when nothing becomes eligible for this long on
	// the simulated clock (default ten minutes; histories with long silences raise it)
	IdleLimit time.Duration
	mu       sync.Mutex
	tasks    [MaxTasks]*Task
	ntasks   int
	arrive   chan struct{}
	Ch       *Choices
	Seq      uint64
	tearing  bool
	last     int // last task run (for the default policy)
	schedGid uint64
	stalling int32
	// Deadlock describes the tasks found waiting for program mutexes when the
	// run ended because nothing could happen any more.
	Deadlock string
	// per-mutex bookkeeping of the simulated lock waits (see mutex.go)
	pendingW map[uintptr]int
	// StallFilter, when set, restricts injected stalls to tasks parked with a
	// function whose name contains it on their stack (a slow component
	// rather than a uniformly slow machine).
	StallFilter string
	// StallTotal is the sum of all stalls injected so far (they may overlap in time).
	StallTotal time.Duration
	start      time.Time

	// configuration
	StallProb int // per 10000 yields
	StallMax  time.Duration
	MaxSteps  uint64
	TraceOn   bool
	Trace     []Step
	TraceHash uint64
	ProjHash  uint64                // hash of (task name, site) projection
	OnIdle    func() bool           // called when no task is ready; return true to stop
	OnStep    func()                // called before each release (invariants)
	StepHook  func(seq uint64) bool // return true to stop (crash injection)
	Stats     Stats

	// node life-cycle
	BootDone   bool // set by the driver once the collector serves traffic (race build: boot happens-before steady state)
	Exited     bool
	ExitCode   int
	ExitAt     time.Duration
	MainDone   bool
	MainDoneAt time.Duration
	Panicked   *Task

	// seams
	Net   *Net
	FS    *FS
	Sink  *Sink
	Raw   *RawNet
	Boot  *Boot
	HTTP  []*HTTPServer
	Log   *LogBuf
	gen   uint64
	pools [64]*Pool
	npool int

	// wall-clock watchdog (outside the bubble)
	curStepStart int64 // unix nanos, 0 when idle; accessed atomically
	StopReason   string
}

// Stats counts what actually happened in a run.
type Stats struct {
	Steps       uint64
	Stalls      uint64
	Idle        uint64
	TasksMade   int
	Preemptions uint64
}

var (
	cur    *Sim
	genCtr uint64
	// DbgRel / DbgAcq count boot-barrier operations (diagnostics)
	DbgRel, DbgAcq int
)

// Cur returns the running simulation (nil outside runs: pass-through mode).
func Cur() *Sim { return cur }

// New creates a simulation. Must be called inside the bubble.
func New(ch *Choices) *Sim {
	runAcquire() // the previous run in this process happened before this one
	genCtr++
	s := &Sim{
		arrive:   make(chan struct{}, 1),
		Ch:       ch,
		MaxSteps: 400000,
		StallMax: 50 * time.Millisecond,
		start:    time.Now(),
		last:     -1,
		gen:      genCtr,
		Log:      &LogBuf{},
		schedGid: goid(),
	}
	s.FS = NewFS(s)
	s.Net = newNet(s)
	s.Sink = newSink(s)
	s.Raw = &RawNet{s: s}
	s.Boot = &Boot{}
	cur = s
	return s
}

// Now is simulated time since the start of the run.
func (s *Sim) Now() time.Duration { return time.Since(s.start) }

// Close detaches the simulation.
func (s *Sim) Close() {
	if cur == s {
		cur = nil
	}
}

//go:norace
func goid() uint64 {
	var buf [40]byte
	n := runtime.Stack(buf[:], false)
	var id uint64
	for i := 10; i < n; i++ {
		c := buf[i]
		if c < '0' || c > '9' {
			break
		}
		id = id*10 + uint64(c-'0')
	}
	return id
}

//go:norace
func (s *Sim) lookup(g uint64) *Task {
	s.mu.Lock()
	n := s.ntasks
	for i := n - 1; i >= 0; i-- {
		t := s.tasks[i]
		if t.gid == g && t.state != tDone {
			s.mu.Unlock()
			return t
		}
	}
	s.mu.Unlock()
	return nil
}

// Self returns the calling task or nil.
//
//go:norace
func Self() *Task {
	s := cur
	if s == nil {
		return nil
	}
	raceDisable()
	t := s.lookup(goid())
	raceEnable()
	return t
}

// Yield is a scheduling point. site identifies the instrumented location.
//
//go:norace
func Yield(site int) {
	s := cur
	if s == nil {
		return
	}
	raceDisable()
	t := s.lookup(goid())
	if t == nil {
		raceEnable()
		return
	}
	s.park(t, site)
	raceEnable()
}

//go:norace
func (s *Sim) park(t *Task, site int) { s.parkAs(t, site, tParked) }

// parkAs parks the task in state st (tParked: eligible at once; tLockWait:
// eligible after the next release of a program mutex).
//
//go:norace
func (s *Sim) parkAs(t *Task, site int, st int32) {
	for {
		if s.tearing || t.kill {
			t.state = tDone
			raceEnable()
			runtime.Goexit()
		}
		if RaceBuild {
			raceEnable()
			runRelease()
			if !s.BootDone && !t.Harness {
				bootRelease()
				DbgRel++
			}
			raceDisable()
		}
		if s.StallFilter != "" {
			t.stallOK = callerMatches(s.StallFilter)
		}
		s.mu.Lock()
		t.state = st
		st = tParked // a later round of this loop (after a stall) is an ordinary yield
		t.site = int32(site)
		s.mu.Unlock()
		select {
		case s.arrive <- struct{}{}:
		default:
		}
		<-t.wake
		if RaceBuild && s.BootDone && !t.bootAcq && !t.Harness {
			t.bootAcq = true
			raceEnable()
			bootAcquire()
			raceDisable()
			DbgAcq++
		}
		if s.tearing || t.kill {
			t.state = tDone
			raceEnable()
			runtime.Goexit()
		}
		if t.stall > 0 {
			d := t.stall
			t.stall = 0
			s.mu.Lock()
			s.stalling++
			s.StallTotal += d
			s.mu.Unlock()
			time.Sleep(d)
			s.mu.Lock()
			s.stalling--
			s.mu.Unlock()
			continue
		}
		return
	}
}

// LockDepth is called by instrumented Lock/Unlock: no yield while a program
// lock is held (sync.Mutex waits are not durable blocks for synctest).
//
//go:norace
func LockDepth(d int) {
	s := cur
	if s == nil {
		return
	}
	raceDisable()
	t := s.lookup(goid())
	if t != nil {
		t.depth += int32(d)
	}
	raceEnable()
}

//go:norace
func (s *Sim) newTask(name string, harness bool) *Task {
	s.mu.Lock()
	if s.ntasks >= MaxTasks {
		s.mu.Unlock()
		panic("simrt: too many tasks")
	}
	t := &Task{ID: s.ntasks, Name: name, Harness: harness, wake: make(chan struct{}, 1), state: tNew}
	s.tasks[s.ntasks] = t
	s.ntasks++
	s.Stats.TasksMade++
	s.mu.Unlock()
	return t
}

// Go replaces the go statement in instrumented code.
//
//go:norace
func Go(site int, fn func()) {
	s := cur
	if s == nil {
		go fn()
		return
	}
	raceDisable()
	g := goid()
	me := s.lookup(g)
	if me == nil && g != s.schedGid {
		// called by a goroutine the simulator does not own (e.g. a library
		// goroutine): run it unscheduled.
		raceEnable()
		go fn()
		return
	}
	t := s.newTask("go@"+strconv.Itoa(site), false) // no fmt here: its sync.Pool edges are ignored while race sync is disabled
	raceEnable()
	s.launch(t, site, fn)
}

// GoNamed starts a harness task (exporter, sink, signal source, ...).
//
//go:norace
func (s *Sim) GoNamed(name string, harness bool, fn func()) *Task {
	raceDisable()
	t := s.newTask(name, harness)
	raceEnable()
	s.launch(t, 0, fn)
	return t
}

//go:norace
func (s *Sim) launch(t *Task, site int, fn func()) {
	go func() {
		raceDisable()
		t.gid = goid()
		defer s.taskEnd(t)
		s.park(t, site)
		raceEnable()
		fn()
	}()
}

// callerMatches reports whether a function on the calling goroutine's stack
// has one of the '|'-separated alternatives of sub in its name.
//
//go:norace
func callerMatches(sub string) bool {
	var pcs [48]uintptr
	n := runtime.Callers(3, pcs[:])
	fr := runtime.CallersFrames(pcs[:n])
	for {
		f, more := fr.Next()
		for _, alt := range strings.Split(sub, "|") {
			if strings.Contains(f.Function, alt) {
				return true
			}
		}
		if !more {
			return false
		}
	}
}

//go:norace
func (s *Sim) taskEnd(t *Task) {
	r := recover()
	raceDisable()
	if r != nil {
		buf := make([]byte, 16384)
		n := runtime.Stack(buf, false)
		t.Panic = r
		t.Stack = string(buf[:n])
		s.mu.Lock()
		if s.Panicked == nil && !s.tearing {
			s.Panicked = t
		}
		s.mu.Unlock()
	}
	s.mu.Lock()
	t.state = tDone
	s.mu.Unlock()
	select {
	case s.arrive <- struct{}{}:
	default:
	}
	// stays in race-disabled state: goroutine is ending
}

// Result of Run.
const (
	StopIdle     = "idle-stop"
	StopSteps    = "step-budget"
	StopPanic    = "panic"
	StopHook     = "hook"
	StopDeadline = "sim-time-budget"
)

// Run is the scheduler loop; it must be called from the bubble's root
// goroutine. It returns when OnIdle asks to stop, a task panicked, the step
// budget is exhausted or StepHook asks to stop.
//
//go:norace
func (s *Sim) Run() string {
	raceDisable()
	defer raceEnable()
	s.schedGid = goid()
	var ready [MaxTasks]*Task
	for {
		synctest.Wait()
		markStep(s, false)
		if s.Panicked != nil {
			s.StopReason = StopPanic
			return StopPanic
		}
		n := 0
		s.mu.Lock()
		for i := 0; i < s.ntasks; i++ {
			if s.tasks[i].state == tParked {
				ready[n] = s.tasks[i]
				n++
			}
		}
		s.mu.Unlock()
		if n == 0 {
			s.Stats.Idle++
			if s.OnIdle != nil && s.OnIdle() {
				s.StopReason = StopIdle
				return StopIdle
			}
			// after OnIdle something may have become ready (the driver may
			// have injected an event)
			if s.anyParked() {
				continue
			}
			lim := s.IdleLimit
			if lim <= 0 {
				lim = 10 * time.Minute
			}
			tm := time.NewTimer(lim)
			select {
			case <-s.arrive:
				tm.Stop()
			case <-tm.C:
				s.StopReason = StopDeadline
				if d := s.lockWaiters(); d != "" {
					// nothing became eligible for ten simulated minutes while
					// tasks wait for program mutexes that nobody releases
					s.Deadlock = d
					lastDeadlock = d
				}
				return StopDeadline
			}
			continue
		}
		select {
		case <-s.arrive:
		default:
		}
		if s.Seq >= s.MaxSteps {
			s.StopReason = StopSteps
			return StopSteps
		}
		if s.StepHook != nil && s.StepHook(s.Seq) {
			s.StopReason = StopHook
			return StopHook
		}
		if s.OnStep != nil {
			s.OnStep()
		}
		k := s.Ch.pickTask(ready[:n], s.last)
		t := ready[k]
		if s.last >= 0 && t.ID != s.last {
			for i := 0; i < n; i++ {
				if ready[i].ID == s.last {
					s.Stats.Preemptions++
					break
				}
			}
		}
		s.last = t.ID
		s.Seq++
		s.Stats.Steps++
		now := int64(time.Since(s.start))
		s.TraceHash = mix(s.TraceHash, uint64(t.ID)<<32|uint64(uint32(t.site)))
		s.TraceHash = mix(s.TraceHash, uint64(now))
		s.ProjHash = mix(s.ProjHash, uint64(uint32(t.site)))
		if s.TraceOn {
			s.Trace = append(s.Trace, Step{s.Seq, int32(t.ID), t.site, now})
		}
		if s.StallProb > 0 && !t.Harness && (s.StallFilter == "" || t.stallOK) && s.Ch.Pick(KStall, 10000) < s.StallProb {
			d := time.Duration(1+s.Ch.Pick(KStallDur, int(s.StallMax/time.Millisecond))) * time.Millisecond
			t.stall = d
			s.Stats.Stalls++
		}
		markStep(s, true)
		Refill()
		s.mu.Lock()
		t.state = tRunning
		s.mu.Unlock()
		t.wake <- struct{}{}
	}
}

//go:norace
func (s *Sim) anyParked() bool {
	s.mu.Lock()
	defer s.mu.Unlock()
	for i := 0; i < s.ntasks; i++ {
		if s.tasks[i].state == tParked {
			return true
		}
	}
	return false
}

// Teardown ends the run: every task that reaches a yield exits; tasks blocked
// forever are abandoned (the bubble's end-of-test deadlock panic is recovered
// by the caller).
//
//go:norace
func (s *Sim) Teardown() {
	raceDisable()
	defer raceEnable()
	markStep(s, false)
	s.tearing = true
	// release everything parked, repeatedly, letting timers fire for a bounded
	// simulated time so that polling loops reach a yield and exit.
	deadline := time.Now().Add(5 * time.Second)
	for {
		synctest.Wait()
		released := false
		s.mu.Lock()
		for i := 0; i < s.ntasks; i++ {
			t := s.tasks[i]
			if t.state == tParked || t.state == tLockWait {
				t.state = tRunning
				t.kill = true
				select {
				case t.wake <- struct{}{}:
				default:
				}
				released = true
			}
		}
		s.mu.Unlock()
		if released {
			continue
		}
		if s.liveCount() == 0 || !time.Now().Before(deadline) {
			return
		}
		tm := time.NewTimer(time.Until(deadline))
		select {
		case <-s.arrive:
			tm.Stop()
		case <-tm.C:
			return
		}
	}
}

//go:norace
func (s *Sim) liveCount() int {
	s.mu.Lock()
	defer s.mu.Unlock()
	n := 0
	for i := 0; i < s.ntasks; i++ {
		if s.tasks[i].state != tDone {
			n++
		}
	}
	return n
}

// Live reports tasks that have not finished.
func (s *Sim) Live() int { return s.liveCount() }

// Blocked lists live program tasks that are neither parked nor done (i.e.
// blocked in a real operation) - used by quiescence predicates.
func (s *Sim) TaskNames() []string {
	var out []string
	for i := 0; i < s.ntasks; i++ {
		t := s.tasks[i]
		out = append(out, fmt.Sprintf("%d:%s:%d", t.ID, t.Name, t.state))
	}
	return out
}

func mix(h, v uint64) uint64 {
	h ^= v + 0x9e3779b97f4a7c15 + (h << 6) + (h >> 2)
	h *= 0xff51afd7ed558ccd
	h ^= h >> 33
	return h
}

// Sleep is used by harness tasks: a simulated delay followed by a yield.
func Sleep(d time.Duration) {
	if d > 0 {
		time.Sleep(d)
	}
	Yield(-1)
}

// TaskNameTable returns task names by id.
func (s *Sim) TaskNameTable() []string {
	out := make([]string, s.ntasks)
	for i := 0; i < s.ntasks; i++ {
		out[i] = s.tasks[i].Name
	}
	return out
}

// Stalling reports how many tasks are inside an injected stall.
func (s *Sim) Stalling() int { return int(s.stalling) }

// Kill ends a task the next time it reaches a yield (harness tasks).
func (t *Task) Kill() { t.kill = true }

// Done reports whether the task has finished.
func (t *Task) Done() bool { return t.state == tDone }
