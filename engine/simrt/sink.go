package simrt

import (
	"errors"
	"net"
	"os"
	"syscall"
	"time"
)

// SinkFault is one scripted failure of the sink connection. It triggers when
// the total number of octets the sink has received (over all connections)
// would pass AtByte, so faults land inside the message stream.
type SinkFault struct {
	Kind       string        `json:"kind"` // "reset" | "close" | "torn" | "stall" (tcp: the sink stops reading for DownFor, writes block; no failure)
	AtByte     int           `json:"at_byte"`
	DeadAccept int           `json:"dead_accept"` // later writes that "succeed" locally and are lost
	DownFor    time.Duration `json:"down_for"`    // sink refuses connections for this long
	Fired      bool          `json:"fired"`
	FiredAt    time.Duration `json:"fired_at"`
}

// SinkConnRec is what the sink received on one connection.
type SinkConnRec struct {
	Proto     string
	Addr      string
	Bytes     []byte   // tcp: stream; udp: concatenation (see Dgrams)
	Dgrams    [][]byte // udp: one entry per datagram received
	Broken    bool
	BrokenAt  time.Duration
	OpenedAt  time.Duration
	Lost      int // octets accepted locally and never received
	WriteErrs int
	Writes    int
}

// DialRec is one Dial attempt.
type DialRec struct {
	At    time.Duration
	Proto string
	Addr  string
	OK    bool
}

// Sink is the simulated message-queue endpoint behind net.Dial.
type Sink struct {
	s         *Sim
	Script    []SinkFault
	Conns     []*SinkConnRec
	Dials     []DialRec
	Total     int // octets received over all connections
	downUntil time.Duration
	DownFrom0 time.Duration // sink unreachable from time 0 until this
	UDPMax    int           // datagram size limit (udp)
	UDPLoss   []int         // indexes (global write count) of udp datagrams lost
	nWrites   int
	LastHeal  time.Duration
}

func newSink(s *Sim) *Sink { return &Sink{s: s, UDPMax: 65507} }

type simConn struct {
	k          *Sink
	rec        *SinkConnRec
	broken     bool
	deadAccept int
	errsGiven  int
	resetFirst bool
	closed     bool
	udp        bool
	wdeadline  time.Time     // write deadline set by the program
	stallUntil time.Duration // the sink reads nothing until then: writes block
}

// waitStall blocks the writer until the sink reads again or the write
// deadline expires (reported).
func (c *simConn) waitStall() (expired bool) {
	s := c.k.s
	wait := c.stallUntil - s.Now()
	if !c.wdeadline.IsZero() {
		if dl := time.Until(c.wdeadline); dl < wait {
			wait, expired = dl, true
		}
	}
	if wait > 0 {
		s.mu.Lock()
		s.stalling++
		s.mu.Unlock()
		time.Sleep(wait)
		s.mu.Lock()
		s.stalling--
		s.mu.Unlock()
	}
	return expired
}

func timeoutErr(proto string) error {
	return &net.OpError{Op: "write", Net: proto, Err: os.ErrDeadlineExceeded}
}

func opErr(op, proto string, e error) error {
	return &net.OpError{Op: op, Net: proto, Err: os.NewSyscallError(op, e)}
}

// Dial replaces net.Dial.
func Dial(proto, addr string) (net.Conn, error) {
	s := cur
	if s == nil {
		return net.Dial(proto, addr)
	}
	Yield(siteConn)
	k := s.Sink
	now := s.Now()
	udp := len(proto) >= 3 && proto[:3] == "udp"
	if proto != "tcp" && proto != "tcp4" && proto != "tcp6" && !udp {
		k.Dials = append(k.Dials, DialRec{now, proto, addr, false})
		return nil, &net.OpError{Op: "dial", Net: proto, Err: net.UnknownNetworkError(proto)}
	}
	if !udp && (now < k.downUntil || now < k.DownFrom0) {
		k.Dials = append(k.Dials, DialRec{now, proto, addr, false})
		return nil, opErr("connect", proto, syscall.ECONNREFUSED)
	}
	k.Dials = append(k.Dials, DialRec{now, proto, addr, true})
	rec := &SinkConnRec{Proto: proto, Addr: addr, OpenedAt: now}
	k.Conns = append(k.Conns, rec)
	return &simConn{k: k, rec: rec, udp: udp}, nil
}

// DialTimeout replaces net.DialTimeout.
func DialTimeout(proto, addr string, d time.Duration) (net.Conn, error) {
	return Dial(proto, addr)
}

func (c *simConn) Write(b []byte) (int, error) {
	Yield(siteConn)
	n, err := c.write(b)
	Yield(siteConn)
	return n, err
}

func (c *simConn) write(b []byte) (int, error) {
	k := c.k
	c.rec.Writes++
	k.nWrites++
	if c.closed {
		return 0, &net.OpError{Op: "write", Net: c.rec.Proto, Err: errClosed}
	}
	now := k.s.Now()
	if c.udp {
		if len(b) > k.UDPMax {
			c.rec.WriteErrs++
			return 0, opErr("write", c.rec.Proto, syscall.EMSGSIZE)
		}
		down := now < k.downUntil || now < k.DownFrom0
		if down {
			// datagram lost; ICMP unreachable surfaces on the *next* write
			c.rec.Lost += len(b)
			if c.deadAccept > 0 {
				c.deadAccept = 0
				c.rec.WriteErrs++
				return 0, opErr("write", c.rec.Proto, syscall.ECONNREFUSED)
			}
			c.deadAccept = 1
			return len(b), nil
		}
		c.deadAccept = 0
		for _, li := range k.UDPLoss {
			if li == k.nWrites-1 {
				c.rec.Lost += len(b)
				return len(b), nil
			}
		}
		cp := append([]byte(nil), b...)
		c.rec.Dgrams = append(c.rec.Dgrams, cp)
		c.rec.Bytes = append(c.rec.Bytes, b...)
		k.Total += len(b)
		return len(b), nil
	}
	if c.broken {
		if c.deadAccept > 0 {
			c.deadAccept--
			c.rec.Lost += len(b)
			return len(b), nil
		}
		c.rec.WriteErrs++
		c.errsGiven++
		if c.resetFirst && c.errsGiven == 1 {
			return 0, opErr("write", c.rec.Proto, syscall.ECONNRESET)
		}
		return 0, opErr("write", c.rec.Proto, syscall.EPIPE)
	}
	if now < c.stallUntil {
		// the sink's buffers are full: nothing more is taken until it reads again
		if c.waitStall() {
			c.rec.WriteErrs++
			return 0, timeoutErr(c.rec.Proto)
		}
		now = k.s.Now()
	}
	// next unfired fault
	var f *SinkFault
	for i := range k.Script {
		if !k.Script[i].Fired {
			f = &k.Script[i]
			break
		}
	}
	if f != nil && f.Kind == "stall" && k.Total+len(b) > f.AtByte {
		// the sink stops reading inside this write: the first part is taken,
		// the writer blocks; when the sink reads again the rest follows
		keep := f.AtByte - k.Total
		if keep < 0 {
			keep = 0
		}
		c.rec.Bytes = append(c.rec.Bytes, b[:keep]...)
		k.Total += keep
		f.Fired = true
		f.FiredAt = now
		c.stallUntil = now + f.DownFor
		if c.waitStall() {
			c.rec.WriteErrs++
			return keep, timeoutErr(c.rec.Proto)
		}
		c.rec.Bytes = append(c.rec.Bytes, b[keep:]...)
		k.Total += len(b) - keep
		return len(b), nil
	}
	if f != nil && k.Total+len(b) > f.AtByte {
		keep := f.AtByte - k.Total
		if keep < 0 {
			keep = 0
		}
		c.rec.Bytes = append(c.rec.Bytes, b[:keep]...)
		k.Total += keep
		f.Fired = true
		f.FiredAt = now
		c.broken = true
		c.rec.Broken = true
		c.rec.BrokenAt = now
		c.deadAccept = f.DeadAccept
		c.resetFirst = f.Kind == "reset"
		k.downUntil = now + f.DownFor
		k.LastHeal = k.downUntil
		if f.Kind == "torn" {
			c.rec.WriteErrs++
			c.errsGiven++
			return keep, opErr("write", c.rec.Proto, syscall.EPIPE)
		}
		c.rec.Lost += len(b) - keep
		return len(b), nil
	}
	c.rec.Bytes = append(c.rec.Bytes, b...)
	k.Total += len(b)
	return len(b), nil
}

func (c *simConn) Read(b []byte) (int, error) {
	// the sink never sends; block until closed
	select {}
}
func (c *simConn) Close() error                       { c.closed = true; return nil }
func (c *simConn) LocalAddr() net.Addr                { return &net.TCPAddr{IP: net.IPv4(127, 0, 0, 1), Port: 40000} }
func (c *simConn) RemoteAddr() net.Addr               { return &net.TCPAddr{IP: net.IPv4(127, 0, 0, 1), Port: 9555} }
func (c *simConn) SetDeadline(t time.Time) error      { c.wdeadline = t; return nil }
func (c *simConn) SetReadDeadline(t time.Time) error  { return nil }
func (c *simConn) SetWriteDeadline(t time.Time) error { c.wdeadline = t; return nil }

// Listen replaces net.Listen: listening TCP sockets are not simulated.
func Listen(network, addr string) (net.Listener, error) {
	if cur == nil {
		return net.Listen(network, addr)
	}
	return nil, errors.New("simrt: listen not simulated")
}

// ListenPacket replaces net.ListenPacket: not simulated (disables discovery).
func ListenPacket(network, addr string) (net.PacketConn, error) {
	if cur == nil {
		return net.ListenPacket(network, addr)
	}
	return nil, errors.New("simrt: listenpacket not simulated")
}
