package simrt

import (
	"errors"
	"net"
	"net/netip"
	"os"
	"strconv"
	"syscall"
	"time"
)

// Yield site ids used by the harness itself (negative: not program sites).
const (
	siteUDPRead  = -10
	siteUDPClose = -11
	sitePool     = -12
	siteFS       = -13
	siteConn     = -14
	siteRaw      = -15
	siteSignal   = -16
	siteNet      = -17
)

// Dgram is a datagram in a socket receive queue.
type Dgram struct {
	ID   int // delivery id (index into the plan's delivery list)
	Src  *net.UDPAddr
	Data []byte
}

// Received records one successful ReadFromUDP.
type Received struct {
	ID   int
	Port int
	Seq  uint64 // scheduler step at which the read returned
	At   time.Duration
	N    int
}

// Net is the simulated UDP network: listening sockets by port.
type Net struct {
	s          *Sim
	socks      [16]*UDPConn
	nsocks     int
	Recv       []Received
	Overflow   int
	NoSocket   int
	Trunc      int
	QueueCap   int
	ListenFail map[int]error
}

func newNet(s *Sim) *Net { return &Net{s: s, QueueCap: 4096} }

// UDPConn replaces net.UDPConn in instrumented code.
type UDPConn struct {
	n        *Net
	port     int
	addr     *net.UDPAddr
	q        chan Dgram
	deadline time.Time
	closed   bool
	closeCh  chan struct{}
	Reads    int
	Timeouts int
}

type timeoutError struct{}

func (timeoutError) Error() string   { return "i/o timeout" }
func (timeoutError) Timeout() bool   { return true }
func (timeoutError) Temporary() bool { return true }

var errClosed = errors.New("use of closed network connection")

// ListenUDP replaces net.ListenUDP.
func ListenUDP(network string, laddr *net.UDPAddr) (*UDPConn, error) {
	s := cur
	if s == nil {
		return nil, errors.New("simrt: no simulation")
	}
	Yield(siteNet)
	port := 0
	if laddr != nil {
		port = laddr.Port
	}
	n := s.Net
	if e, ok := n.ListenFail[port]; ok {
		return nil, &net.OpError{Op: "listen", Net: network, Addr: laddr, Err: e}
	}
	for i := 0; i < n.nsocks; i++ {
		if n.socks[i].port == port && !n.socks[i].closed {
			return nil, &net.OpError{Op: "listen", Net: network, Addr: laddr, Err: os.NewSyscallError("bind", errors.New("address already in use"))}
		}
	}
	c := &UDPConn{n: n, port: port, addr: laddr, q: make(chan Dgram, n.QueueCap), closeCh: make(chan struct{})}
	n.socks[n.nsocks] = c
	n.nsocks++
	return c, nil
}

// Sock returns the open socket bound to port, or nil.
func (n *Net) Sock(port int) *UDPConn {
	for i := 0; i < n.nsocks; i++ {
		if n.socks[i].port == port && !n.socks[i].closed {
			return n.socks[i]
		}
	}
	return nil
}

// Ports lists bound ports in bind order.
func (n *Net) Ports() []int {
	var out []int
	for i := 0; i < n.nsocks; i++ {
		out = append(out, n.socks[i].port)
	}
	return out
}

// BoundAddrs lists "addr:port" of bound sockets in bind order.
func (n *Net) BoundAddrs() []string {
	var out []string
	for i := 0; i < n.nsocks; i++ {
		a := ""
		if n.socks[i].addr != nil && n.socks[i].addr.IP != nil {
			a = n.socks[i].addr.IP.String()
		}
		out = append(out, a+":"+strconv.Itoa(n.socks[i].port))
	}
	return out
}

// Deliver puts a datagram into the socket bound to port. It never blocks:
// a full queue or a missing socket drops the datagram (it was not received).
// Returns true if queued.
func (n *Net) Deliver(port int, d Dgram) bool {
	c := n.Sock(port)
	if c == nil {
		n.NoSocket++
		return false
	}
	select {
	case c.q <- d:
		return true
	default:
		n.Overflow++
		return false
	}
}

// Queued returns the number of datagrams waiting in the socket of port.
func (n *Net) Queued(port int) int {
	c := n.Sock(port)
	if c == nil {
		return 0
	}
	return len(c.q)
}

// SetReadDeadline mirrors net.UDPConn.
func (c *UDPConn) SetReadDeadline(t time.Time) error {
	if c == nil {
		return syscall.EINVAL // as net.UDPConn does for a nil receiver
	}
	if c.closed {
		return errClosed
	}
	c.deadline = t
	return nil
}

// SetReadBuffer is accepted and ignored.
func (c *UDPConn) SetReadBuffer(int) error { return nil }

// LocalAddr mirrors net.UDPConn.
func (c *UDPConn) LocalAddr() net.Addr { return c.addr }

// ReadFromUDP blocks (durably, inside the bubble) until a datagram, the
// deadline or Close.
func (c *UDPConn) ReadFromUDP(b []byte) (int, *net.UDPAddr, error) {
	if c == nil {
		return 0, nil, syscall.EINVAL
	}
	Yield(siteUDPRead)
	c.Reads++
	if c.closed {
		return 0, nil, &net.OpError{Op: "read", Net: "udp", Err: errClosed}
	}
	var d Dgram
	got := false
	// data already queued wins over an expired deadline, as in the kernel
	select {
	case d = <-c.q:
		got = true
	default:
	}
	if !got {
		var tc <-chan time.Time
		var tm *time.Timer
		if !c.deadline.IsZero() {
			w := time.Until(c.deadline)
			if w <= 0 {
				Yield(siteUDPRead)
				c.Timeouts++
				return 0, nil, &net.OpError{Op: "read", Net: "udp", Err: timeoutError{}}
			}
			tm = time.NewTimer(w)
			tc = tm.C
		}
		select {
		case d = <-c.q:
			got = true
		case <-tc:
		case <-c.closeCh:
		}
		if tm != nil {
			tm.Stop()
		}
		Yield(siteUDPRead)
		if !got {
			if c.closed {
				return 0, nil, &net.OpError{Op: "read", Net: "udp", Err: errClosed}
			}
			c.Timeouts++
			return 0, nil, &net.OpError{Op: "read", Net: "udp", Err: timeoutError{}}
		}
	}
	n := copy(b, d.Data)
	if n < len(d.Data) {
		c.n.Trunc++
	}
	s := c.n.s
	c.n.Recv = append(c.n.Recv, Received{ID: d.ID, Port: c.port, Seq: s.Seq, At: s.Now(), N: n})
	// the kernel hands out a fresh sockaddr per read; so do we (its IP slice is
	// a private copy with the same length and *no* spare capacity unless the
	// plan asks for it)
	src := &net.UDPAddr{IP: d.Src.IP, Port: d.Src.Port, Zone: d.Src.Zone}
	return n, src, nil
}

// ReadFrom mirrors net.UDPConn.
func (c *UDPConn) ReadFrom(b []byte) (int, net.Addr, error) {
	n, a, err := c.ReadFromUDP(b)
	if a == nil {
		return n, nil, err
	}
	return n, a, err
}

// Read mirrors net.UDPConn (the source address is dropped).
func (c *UDPConn) Read(b []byte) (int, error) {
	n, _, err := c.ReadFromUDP(b)
	return n, err
}

// ReadFromUDPAddrPort mirrors net.UDPConn: the address comes back as a value
// (4-byte sources as IPv4, 16-byte sources - also IPv4-mapped ones - as IPv6,
// the way a dual-stack socket reports them).
func (c *UDPConn) ReadFromUDPAddrPort(b []byte) (int, netip.AddrPort, error) {
	n, a, err := c.ReadFromUDP(b)
	if err != nil || a == nil {
		return n, netip.AddrPort{}, err
	}
	var ip netip.Addr
	if len(a.IP) == 4 {
		ip = netip.AddrFrom4([4]byte{a.IP[0], a.IP[1], a.IP[2], a.IP[3]})
	} else {
		var b16 [16]byte
		copy(b16[:], a.IP)
		ip = netip.AddrFrom16(b16)
	}
	return n, netip.AddrPortFrom(ip, uint16(a.Port)), nil
}

// ReadMsgUDP mirrors net.UDPConn (no out-of-band data).
func (c *UDPConn) ReadMsgUDP(b, oob []byte) (n, oobn, flags int, addr *net.UDPAddr, err error) {
	n, addr, err = c.ReadFromUDP(b)
	return n, 0, 0, addr, err
}

// SetDeadline / SetWriteDeadline mirror net.UDPConn (writes never block here).
func (c *UDPConn) SetDeadline(t time.Time) error      { return c.SetReadDeadline(t) }
func (c *UDPConn) SetWriteDeadline(t time.Time) error { return nil }

// RemoteAddr mirrors net.UDPConn (listening sockets have none).
func (c *UDPConn) RemoteAddr() net.Addr { return nil }

// WriteToUDP / WriteTo: a collector socket is not written to; the octets are dropped.
func (c *UDPConn) WriteToUDP(b []byte, addr *net.UDPAddr) (int, error) { return len(b), nil }
func (c *UDPConn) WriteTo(b []byte, addr net.Addr) (int, error)        { return len(b), nil }

// Close mirrors net.UDPConn.
func (c *UDPConn) Close() error {
	if c == nil {
		return syscall.EINVAL
	}
	Yield(siteUDPClose)
	if c.closed {
		return errClosed
	}
	c.closed = true
	close(c.closeCh)
	return nil
}
