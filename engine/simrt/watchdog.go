package simrt

import "sync/atomic"

// markStep flags whether a step (the stretch between releasing a task and all
// goroutines being durably blocked again) is executing. A watchdog goroutine
// outside the bubble samples Progress on the real clock (time inside the
// bubble is fake) and declares a hang when the same step stays active too long.
//
//go:norace
func markStep(s *Sim, on bool) {
	if on {
		atomic.StoreInt64(&s.curStepStart, int64(s.Seq)+1)
	} else {
		atomic.StoreInt64(&s.curStepStart, 0)
	}
}

// Progress returns the generation of the current simulation and the sequence
// number of the step in execution (0 if between steps or no simulation).
func Progress() (gen uint64, step int64) {
	s := cur
	if s == nil {
		return 0, 0
	}
	return s.gen, atomic.LoadInt64(&s.curStepStart)
}
