#!/bin/sh
# rebuild verifctl (developer convenience; MANIFEST.setup_cmd does the same)
cd /verif/tool && GOFLAGS=-mod=mod GOPROXY=off GOSUMDB=off GOTOOLCHAIN=local go1.26.8 build -o /verif/bin/verifctl ./cmd/verifctl
