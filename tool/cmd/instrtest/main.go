package main

import (
	"fmt"
	"os"

	"veriftool/instr"
)

func main() {
	root := os.Args[1]
	rep, err := instr.Instrument(instr.Config{
		Root: root, Module: "github.com/EdgeCast/vflow",
		Pkgs:     []string{"vflow", "ipfix", "netflow/v9", "netflow/v5", "sflow", "producer", "mirror", "reader", "packet"},
		SimrtPkg: "github.com/EdgeCast/vflow/verifsim/simrt",
		GoCmd:    "go1.26.8", Env: os.Environ(),
	})
	if rep != nil {
		rep.WriteReport(root + "/instr_report.json")
		fmt.Println("files", rep.Files, "sites", len(rep.Sites), "typeerrs", rep.TypeErrors)
		fmt.Println("rewritten", rep.Rewritten)
		fmt.Println("unsim", rep.Unsimulated)
		for _, w := range rep.Warnings {
			fmt.Println("WARN", w)
		}
	}
	if err != nil {
		fmt.Println("ERR", err)
		os.Exit(2)
	}
}
