// verifctl builds the instrumented simulation binary from /repo's current
// working tree, runs seeded simulated executions in parallel worker processes,
// aggregates their results into evidence, confirms and reports violations.
//
//	verifctl check <Cxx> --tier quick|thorough
//	verifctl replay <file>
//	verifctl selftest determinism [--prop Cxx]
//	verifctl build            (build only, keep the scratch directory; prints its path)
//
// Exit codes: 0 property held on everything explored; 1 VIOLATION; 2
// infrastructure trouble (never a VIOLATION line).
package main

import (
	"bufio"
	"bytes"
	"crypto/sha256"
	"encoding/hex"
	"encoding/json"
	"fmt"
	"io"
	"os"
	"os/exec"
	"path/filepath"
	"runtime"
	"sort"
	"strconv"
	"strings"
	"sync"
	"sync/atomic"
	"syscall"
	"time"

	"veriftool/instr"
)

const recycleEvery = 200

// repoDir is /repo; VERIF_REPO overrides it for self-tests on a scratch worktree only.
var repoDir = func() string {
	if d := os.Getenv("VERIF_REPO"); d != "" {
		return d
	}
	return "/repo"
}()

const (
	modPath   = "github.com/EdgeCast/vflow"
	goCmd     = "go1.26.8"
	simrtPath = modPath + "/verifsim/simrt"
)

var verifDir = func() string {
	if d := os.Getenv("VERIF_DIR"); d != "" {
		return d
	}
	return "/verif"
}()

var pkgDirs = []string{"vflow", "ipfix", "netflow/v9", "netflow/v5", "sflow", "producer", "mirror", "reader", "packet"}

func die(code int, f string, a ...interface{}) {
	fmt.Fprintf(os.Stderr, "verifctl: "+f+"\n", a...)
	os.Exit(code)
}

func goEnv() []string {
	env := os.Environ()
	env = append(env, "GOFLAGS=-mod=mod", "GOPROXY=off", "GOSUMDB=off", "GOTOOLCHAIN=local", "GONOSUMDB=*", "GONOSUMCHECK=1", "GOFLAGS=-mod=mod")
	return env
}

// PropCfg is the per-property run configuration.
type PropCfg struct {
	Level       string
	QuickSec    int
	ThoroughSec int
	Race        bool // additionally run a race-build batch
	RaceShare   int  // percent of the budget given to the race batch
	MinRuns     int
	Rule        string
	Assumptions []string
}

var props = map[string]*PropCfg{}

func defProp(id string, c *PropCfg) { props[id] = c }

func init() {
	common := []string{
		"the AST instrumentation of the scratch copy preserves the meaning of vFlow's code (selectors and statement kinds rewritten, DESIGN.md 3.1)",
		"execution is serialized by the seeded scheduler: code takes zero simulated time, critical sections are atomic",
		"Kafka/NSQ/NATS clients, the HTTP listener, multicast discovery are not simulated (DESIGN.md 10)",
	}
	for _, id := range []string{"C01", "C02", "C03", "C04", "C05", "C06", "C07", "C08", "C09", "C10", "C11", "C12", "C13", "C14", "C15", "C16", "C17", "C18", "C20"} {
		c := &PropCfg{Level: "exploration", QuickSec: 25, ThoroughSec: 900, Assumptions: common}
		c.Rule = "one case = one simulated run (a seeded plan: configuration, exporters, datagrams, faults; and a seeded schedule); distinct = distinct (plan hash, schedule-trace hash); non-trivial = at least one datagram was received or one message published or one operation executed"
		props[id] = c
	}
	props["C09"].Level = "fault_enumeration"
	props["C11"].Level = "fault_enumeration"
	props["C10"].Race, props["C10"].RaceShare = true, 50
	props["C12"].Race, props["C12"].RaceShare = true, 25
	// the whole-pipeline checks of the input-oriented properties give a small
	// share of their workers to the race build: unsynchronised state shared
	// between workers inside a decoder or encoder has no scheduling point the
	// plain scheduler could interleave at (DESIGN.md 17, C08-a)
	for _, id := range []string{"C03", "C05", "C06", "C07", "C08", "C13", "C16", "C18"} {
		props[id].Race, props[id].RaceShare = true, 15
	}
	props["C15"].Race, props["C15"].RaceShare = true, 35
}

type buildOut struct {
	Scratch  string
	Bin      string
	RaceBin  string
	Report   *instr.Report
	TreeHash string
	BuildSec float64
}

var copyTests bool // selftest transparency: keep the repository's own _test.go files

func copyTree(dst string) error {
	// tracked and untracked non-ignored files of the working tree
	cmd := exec.Command("git", "-C", repoDir, "ls-files", "-co", "--exclude-standard")
	out, err := cmd.Output()
	if err != nil {
		return fmt.Errorf("git ls-files: %w", err)
	}
	want := func(p string) bool {
		if p == "go.mod" || p == "go.sum" || p == "scripts/ipfix.elements" {
			return true
		}
		if !strings.HasSuffix(p, ".go") || (strings.HasSuffix(p, "_test.go") && !copyTests) {
			return false
		}
		for _, d := range pkgDirs {
			if filepath.Dir(p) == d {
				return true
			}
		}
		return false
	}
	for _, p := range strings.Split(string(out), "\n") {
		if p == "" || !want(p) {
			continue
		}
		b, err := os.ReadFile(filepath.Join(repoDir, p))
		if err != nil {
			if os.IsNotExist(err) {
				continue // deleted in the working tree
			}
			return err
		}
		t := filepath.Join(dst, p)
		os.MkdirAll(filepath.Dir(t), 0755)
		if err := os.WriteFile(t, b, 0644); err != nil {
			return err
		}
	}
	return nil
}

func copyDir(src, dst string, rename func(string) string) error {
	ents, err := os.ReadDir(src)
	if err != nil {
		return err
	}
	os.MkdirAll(dst, 0755)
	for _, e := range ents {
		if e.IsDir() {
			if err := copyDir(filepath.Join(src, e.Name()), filepath.Join(dst, e.Name()), rename); err != nil {
				return err
			}
			continue
		}
		b, err := os.ReadFile(filepath.Join(src, e.Name()))
		if err != nil {
			return err
		}
		n := e.Name()
		if rename != nil {
			n = rename(n)
		}
		if err := os.WriteFile(filepath.Join(dst, n), b, 0644); err != nil {
			return err
		}
	}
	return nil
}

// lockRepo serialises the copy of /repo's working tree with tool/try_mut.sh,
// which holds the same advisory lock while a seeded change is applied to
// /repo: a check running in the background then never copies a tree that
// somebody is in the middle of changing. Any failure to lock is ignored.
func lockRepo() func() {
	if os.Getenv("VERIF_LOCK_HELD") != "" {
		return func() {}
	}
	f, err := os.OpenFile("/var/tmp/verif-repo.lock", os.O_CREATE|os.O_RDWR, 0666)
	if err != nil {
		return func() {}
	}
	if err := syscall.Flock(int(f.Fd()), syscall.LOCK_EX); err != nil {
		f.Close()
		return func() {}
	}
	return func() { syscall.Flock(int(f.Fd()), syscall.LOCK_UN); f.Close() }
}

func build(race bool, both bool) (*buildOut, error) {
	start := time.Now()
	scratch := os.Getenv("VERIF_SCRATCH")
	if scratch == "" {
		scratch = fmt.Sprintf("/var/tmp/vflow-verif.%d", os.Getpid())
	}
	os.RemoveAll(scratch)
	if err := os.MkdirAll(scratch, 0755); err != nil {
		return nil, err
	}
	bo := &buildOut{Scratch: scratch}
	src := filepath.Join(scratch, "src")
	unlock := lockRepo()
	err := copyTree(src)
	unlock()
	if err != nil {
		return bo, err
	}
	fmt.Println("verifctl: tree copied")
	rep, err := instr.Instrument(instr.Config{Root: src, Module: modPath, Pkgs: pkgDirs, SimrtPkg: simrtPath, GoCmd: goCmd, Env: goEnv()})
	bo.Report = rep
	if err != nil {
		return bo, fmt.Errorf("instrumenter: %w", err)
	}
	if rep != nil {
		rep.WriteReport(filepath.Join(scratch, "instr_report.json"))
		// I/O the simulator has no model for would run against the real machine:
		// no verdict can be given on such a tree (the entries below are the
		// peer-discovery and RPC calls of ipfix/memcache_rpc.go, which no check
		// reaches through the network)
		known := map[string]bool{"net.Interfaces": true, "net.LookupHost": true, "net/rpc.Accept": true, "net/rpc.Client": true, "net/rpc.NewClient": true, "net/rpc.Register": true}
		var unknown []string
		for sel := range rep.Unsimulated {
			if !known[sel] {
				unknown = append(unknown, sel)
			}
		}
		if len(unknown) > 0 {
			sort.Strings(unknown)
			return bo, fmt.Errorf("the tree uses I/O calls the simulator has no model for: %s (extend tool/instr selTable and engine/simrt)", strings.Join(unknown, ", "))
		}
	}
	eng := filepath.Join(verifDir, "engine")
	if err := copyDir(filepath.Join(eng, "simrt"), filepath.Join(src, "verifsim", "simrt"), nil); err != nil {
		return bo, err
	}
	if err := copyDir(filepath.Join(eng, "model"), filepath.Join(src, "verifsim", "model"), nil); err != nil {
		return bo, err
	}
	if err := copyDir(filepath.Join(eng, "driver"), filepath.Join(src, "vflow"), nil); err != nil {
		return bo, err
	}
	el, err := os.ReadFile(filepath.Join(src, "scripts", "ipfix.elements"))
	if err != nil {
		el = []byte{}
	}
	os.WriteFile(filepath.Join(src, "vflow", "zz_verif_elements_data_test.go"),
		[]byte("//go:build verif\n\npackage main\n\nconst shippedElementsText = "+strconv.Quote(string(el))+"\n"), 0644)
	tsv, err := os.ReadFile(filepath.Join(eng, "model", "data", "ipfix-iana-snapshot.tsv"))
	if err != nil {
		return bo, err
	}
	os.WriteFile(filepath.Join(src, "verifsim", "model", "snapshot_data.go"),
		[]byte("package model\n\nconst snapshotTSV = "+strconv.Quote(string(tsv))+"\n"), 0644)
	// extra requirement for the history checker
	gm, err := os.ReadFile(filepath.Join(src, "go.mod"))
	if err != nil {
		return bo, err
	}
	gm = append(gm, []byte("\nrequire github.com/anishathalye/porcupine v1.3.0\n")...)
	os.WriteFile(filepath.Join(src, "go.mod"), gm, 0644)
	// tree hash of the instrumented sources
	h := sha256.New()
	filepath.Walk(src, func(p string, info os.FileInfo, err error) error {
		if err == nil && !info.IsDir() && strings.HasSuffix(p, ".go") {
			b, _ := os.ReadFile(p)
			io.WriteString(h, p[len(src):])
			h.Write(b)
		}
		return nil
	})
	bo.TreeHash = hex.EncodeToString(h.Sum(nil))[:16]
	compile := func(race bool) (string, error) {
		out := filepath.Join(scratch, "sim.test")
		args := []string{"test", "-c", "-tags", "verif", "-vet=off", "-o", out}
		if race {
			out = filepath.Join(scratch, "sim.race.test")
			args = []string{"test", "-c", "-tags", "verif", "-vet=off", "-race", "-o", out}
		}
		args = append(args, "./vflow")
		cmd := exec.Command(goCmd, args...)
		cmd.Dir = src
		cmd.Env = goEnv()
		var buf bytes.Buffer
		cmd.Stdout, cmd.Stderr = &buf, &buf
		if err := cmd.Run(); err != nil {
			return "", fmt.Errorf("compile (race=%v): %v\n%s", race, err, buf.String())
		}
		return out, nil
	}
	var wg sync.WaitGroup
	var e1, e2 error
	if !race || both {
		wg.Add(1)
		go func() { defer wg.Done(); bo.Bin, e1 = compile(false) }()
	}
	if race || both {
		wg.Add(1)
		go func() { defer wg.Done(); bo.RaceBin, e2 = compile(true) }()
	}
	wg.Wait()
	if e1 != nil {
		return bo, e1
	}
	if e2 != nil {
		return bo, e2
	}
	bo.BuildSec = time.Since(start).Seconds()
	return bo, nil
}

// Job mirrors the driver's Job.
type Job struct {
	Prop      string         `json:"prop"`
	Tier      string         `json:"tier"`
	Seed      int64          `json:"seed"`
	Worker    int            `json:"worker"`
	NWorkers  int            `json:"nworkers"`
	BudgetSec int            `json:"budget_sec"`
	MaxRuns   int            `json:"max_runs"`
	RunOffset int            `json:"run_offset"`
	Out       string         `json:"out"`
	Replay    string         `json:"replay,omitempty"`
	Minimise  bool           `json:"minimise,omitempty"`
	MinBudget int            `json:"min_budget_sec,omitempty"`
	TraceAll  bool           `json:"trace_all,omitempty"`
	Status    string         `json:"status"`
	Known     []KnownFinding `json:"known,omitempty"`
	OnlySeed  int64          `json:"only_seed,omitempty"`
}

// KnownFinding is one "finding:" line of KNOWN_FINDINGS.
type KnownFinding struct {
	Prop  string `json:"prop"`
	Class string `json:"class"`
	Match string `json:"match"`
	Text  string `json:"text"`
}

func loadKnown() []KnownFinding {
	f, err := os.Open(filepath.Join(verifDir, "KNOWN_FINDINGS"))
	if err != nil {
		return nil
	}
	defer f.Close()
	var out []KnownFinding
	sc := bufio.NewScanner(f)
	for sc.Scan() {
		l := strings.TrimSpace(sc.Text())
		if !strings.HasPrefix(l, "finding:") {
			continue
		}
		// finding: property=C04 class=<class> match=<substring> :: text
		rest := strings.TrimSpace(strings.TrimPrefix(l, "finding:"))
		parts := strings.SplitN(rest, "::", 2)
		kf := KnownFinding{}
		if len(parts) == 2 {
			kf.Text = strings.TrimSpace(parts[1])
		}
		head := parts[0]
		if i := strings.Index(head, "match="); i >= 0 {
			kf.Match = strings.TrimSpace(head[i+len("match="):])
			head = head[:i]
		}
		for _, f := range strings.Fields(head) {
			if strings.HasPrefix(f, "property=") {
				kf.Prop = strings.TrimPrefix(f, "property=")
			}
			if strings.HasPrefix(f, "class=") {
				kf.Class = strings.TrimPrefix(f, "class=")
			}
		}
		if kf.Prop != "" {
			out = append(out, kf)
		}
	}
	return out
}

type workerRes struct {
	Res      map[string]interface{}
	Raw      []byte
	ExitCode int
	Signal   string
	Output   string
	Status   string
	Hang     string
	Plan     []byte
}

// jobSeq numbers the worker processes started by this verifctl: the race
// runtime names its log <log_path>.<pid>, and process ids are reused within
// a long run (a worker that inherited the stale log of an earlier one took
// its size for its own starting mark and then missed its own canary report)
var jobSeq int64

func runWorker(bin string, job *Job, dir string, memLimitMB int, timeout time.Duration, extraEnv ...string) *workerRes {
	jf := filepath.Join(dir, fmt.Sprintf("job.%d.json", job.Worker))
	job.Out = filepath.Join(dir, fmt.Sprintf("out.%d.json", job.Worker))
	job.Status = filepath.Join(dir, fmt.Sprintf("status.%d", job.Worker))
	os.Remove(job.Out)
	os.Remove(job.Status + ".hang")
	b, _ := json.Marshal(job)
	os.WriteFile(jf, b, 0644)
	if strings.HasSuffix(bin, ".race") || strings.Contains(filepath.Base(bin), "race") {
		// the race runtime maps its shadow inside the same address-space
		// limit: with the plain limit it dies inside the sanitizer runtime
		// (silently, with GORACE's exit code) or with "too many address space
		// collisions for -race mode"
		f := 5
		if v, err := strconv.Atoi(os.Getenv("VERIF_RACE_MEM_FACTOR")); err == nil && v > 0 {
			f = v
		}
		memLimitMB *= f
	}
	// ulimit -v through sh so a runaway allocation ends the worker, not the VM
	sh := fmt.Sprintf("ulimit -v %d; exec %s -test.run '^TestVerif$' -test.timeout %ds -test.count 1 -test.paniconexit0", memLimitMB*1024, bin, int(timeout.Seconds())+120)
	cmd := exec.Command("sh", "-c", sh)
	cmd.Dir = dir
	cmd.Env = append(os.Environ(), "VERIF_JOB="+jf, "GODEBUG=asynctimerchan=0", "GOMAXPROCS=2",
		"GORACE=halt_on_error=0 log_path="+filepath.Join(dir, fmt.Sprintf("race.%d.j%d", job.Worker, atomic.AddInt64(&jobSeq, 1)))+" history_size=2 exitcode=0")
	if v := os.Getenv("VERIF_GOMAXPROCS"); v != "" {
		cmd.Env = append(cmd.Env, "GOMAXPROCS="+v)
	}
	cmd.Env = append(cmd.Env, extraEnv...)
	var buf bytes.Buffer
	cmd.Stdout, cmd.Stderr = &buf, &buf
	done := make(chan error, 1)
	cmd.SysProcAttr = &syscall.SysProcAttr{Setpgid: true}
	if err := cmd.Start(); err != nil {
		return &workerRes{ExitCode: -1, Output: err.Error()}
	}
	go func() { done <- cmd.Wait() }()
	wr := &workerRes{}
	select {
	case err := <-done:
		if err != nil {
			if ee, ok := err.(*exec.ExitError); ok {
				wr.ExitCode = ee.ExitCode()
				if ws, ok := ee.Sys().(syscall.WaitStatus); ok && ws.Signaled() {
					wr.Signal = ws.Signal().String()
				}
			} else {
				wr.ExitCode = -1
			}
		}
	case <-time.After(timeout + 150*time.Second):
		syscall.Kill(-cmd.Process.Pid, syscall.SIGKILL)
		<-done
		wr.ExitCode = -2
		wr.Signal = "supervisor-timeout"
	}
	wr.Output = buf.String()
	if len(wr.Output) > 24000 {
		wr.Output = wr.Output[:6000] + "\n[...]\n" + wr.Output[len(wr.Output)-16000:]
	}
	if b, err := os.ReadFile(job.Out); err == nil {
		wr.Raw = b
		json.Unmarshal(b, &wr.Res)
	} else if logs, _ := filepath.Glob(filepath.Join(dir, fmt.Sprintf("race.%d.j*", job.Worker))); len(logs) > 0 {
		// a worker that died inside the sanitizer runtime leaves its last words in the race log
		sort.Strings(logs)
		if lb, err := os.ReadFile(logs[len(logs)-1]); err == nil {
			wr.Output += "\n[race log " + filepath.Base(logs[len(logs)-1]) + "]\n" + tailStr(string(lb), 3000)
		}
	}
	if b, err := os.ReadFile(job.Status); err == nil {
		wr.Status = strings.TrimSpace(string(b))
	}
	if b, err := os.ReadFile(job.Status + ".hang"); err == nil {
		wr.Hang = string(b)
	}
	if b, err := os.ReadFile(job.Status + ".plan"); err == nil {
		wr.Plan = b
	}
	return wr
}

// Result mirrors the driver's Result (only what is aggregated).
type Result struct {
	Prop          string            `json:"prop"`
	Runs          int               `json:"runs"`
	Steps         uint64            `json:"steps"`
	SimTimeMs     int64             `json:"sim_time_ms"`
	WallMs        int64             `json:"wall_ms"`
	Faults        map[string]int    `json:"faults"`
	Probes        map[string]int    `json:"probes"`
	Scenarios     map[string]int    `json:"scenarios"`
	Distinct      []uint64          `json:"distinct"`
	ProjDistinct  []uint64          `json:"proj_distinct"`
	StateDistinct []uint64          `json:"state_distinct"`
	Inconclusive  map[string]int    `json:"inconclusive"`
	Violations    []json.RawMessage `json:"violations"`
	Known         map[string]int    `json:"known"`
	KnownText     map[string]string `json:"known_text"`
	Samples       []interface{}     `json:"samples"`
	TraceLog      []string          `json:"trace_log"`
	RaceBuild     bool              `json:"race_build"`
	Error         string            `json:"error"`
	RaceNotes     map[string]int    `json:"race_notes"`
}

func nWorkers() int {
	n := runtime.NumCPU()
	if n > 16 {
		n = 16
	}
	if v := os.Getenv("VERIF_WORKERS"); v != "" {
		if x, err := strconv.Atoi(v); err == nil && x > 0 {
			n = x
		}
	}
	return n
}

func seedFromEnv(tier string) int64 {
	if v := os.Getenv("VERIF_SEED"); v != "" {
		if x, err := strconv.ParseInt(v, 10, 64); err == nil {
			return x
		}
	}
	if tier == "thorough" {
		return 20260928
	}
	return 1
}

func cmdCheck(id, tier string) int {
	pc, ok := props[id]
	if !ok {
		die(2, "unknown property %s", id)
	}
	start := time.Now()
	seed := seedFromEnv(tier)
	fmt.Printf("verifctl: property=%s tier=%s VERIF_SEED=%d\n", id, tier, seed)
	bo, err := build(false, pc.Race)
	defer func() {
		if os.Getenv("VERIF_KEEP") == "" && bo != nil {
			os.RemoveAll(bo.Scratch)
		}
	}()
	if err != nil {
		fmt.Fprintf(os.Stderr, "verifctl: build failed: %v\n", err)
		return 2
	}
	fmt.Printf("verifctl: built in %.1fs (tree %s, %d instrumented sites)\n", bo.BuildSec, bo.TreeHash, len(bo.Report.Sites))
	budget := pc.QuickSec
	if tier == "thorough" {
		budget = pc.ThoroughSec
	}
	if v := os.Getenv("VERIF_BUDGET_SEC"); v != "" {
		if x, err := strconv.Atoi(v); err == nil {
			budget = x
		}
	}
	known := loadKnown()
	W := nWorkers()
	raceW := 0
	if pc.Race {
		raceW = W * pc.RaceShare / 100
		if raceW < 1 {
			raceW = 1
		}
	}
	var wg sync.WaitGroup
	var mu sync.Mutex
	var results []*workerRes
	deadline := time.Now().Add(time.Duration(budget) * time.Second)
	for i := 0; i < W; i++ {
		bin := bo.Bin
		if i < raceW {
			bin = bo.RaceBin
		}
		wg.Add(1)
		go func(i int, bin string) {
			defer wg.Done()
			// worker processes are recycled every few hundred runs so that
			// goroutines abandoned at the end of simulated incarnations cannot
			// accumulate (DESIGN.md 3.8)
			offset := 0
			for {
				left := int(time.Until(deadline).Seconds())
				if left < 1 && offset > 0 {
					return
				}
				if left < 1 {
					left = 1
				}
				// the race runtime dies (silently, with GORACE's exit code) once 8128
				// goroutines are alive at the same time; goroutines abandoned in
				// blocked channel operations at the end of an incarnation count
				maxRuns := recycleEvery
				if bin == bo.RaceBin && bo.RaceBin != "" {
					maxRuns = recycleEvery / 5
				}
				job := &Job{Prop: id, Tier: tier, Seed: seed, Worker: i, NWorkers: W, BudgetSec: left, MaxRuns: maxRuns, RunOffset: offset, Minimise: true, MinBudget: 20, Known: known}
				if tier == "thorough" {
					job.MinBudget = 120
				}
				wr := runWorker(bin, job, bo.Scratch, 6000, time.Duration(left+job.MinBudget*3)*time.Second)
				mu.Lock()
				results = append(results, wr)
				mu.Unlock()
				var r Result
				if wr.Raw != nil {
					json.Unmarshal(wr.Raw, &r)
				}
				if wr.Raw == nil || r.Runs < maxRuns || len(r.Violations) > 0 || r.Error != "" {
					return
				}
				offset += r.Runs
			}
		}(i, bin)
	}
	wg.Wait()
	return aggregate(id, tier, seed, pc, bo, results, time.Since(start), raceW)
}

func aggregate(id, tier string, seed int64, pc *PropCfg, bo *buildOut, results []*workerRes, wall time.Duration, raceW int) int {
	tot := &Result{Faults: map[string]int{}, Probes: map[string]int{}, Scenarios: map[string]int{}, Inconclusive: map[string]int{}, Known: map[string]int{}, KnownText: map[string]string{}, RaceNotes: map[string]int{}}
	distinct := map[uint64]bool{}
	proj := map[uint64]bool{}
	states := map[uint64]bool{}
	infra := []string{}
	var viols []map[string]interface{}
	raceRuns := 0
	for i, wr := range results {
		if wr == nil {
			infra = append(infra, fmt.Sprintf("worker %d: no result", i))
			continue
		}
		var r Result
		if wr.Raw != nil {
			json.Unmarshal(wr.Raw, &r)
		}
		// exit status 1 with a complete result file is the Go test framework
		// flagging "race detected during execution of test": not a worker death
		if (wr.ExitCode != 0 && !((wr.ExitCode == 1 || wr.ExitCode == 66) && wr.Raw != nil && r.RaceBuild)) || wr.Raw == nil {
			// a worker died: attribute
			msg := fmt.Sprintf("worker %d exit=%d signal=%s status=[%s]", i, wr.ExitCode, wr.Signal, wr.Status)
			if wr.Hang != "" {
				msg += "\n" + firstLines(wr.Hang, 40)
			} else {
				msg += "\n" + firstLines(wr.Output, 30)
			}
			if v := deathViolation(id, wr); v != nil {
				viols = append(viols, v)
			} else if id != "C02" && wr.Raw == nil && (strings.Contains(wr.Output, "out of memory") || wr.Hang != "") {
				// resource exhaustion inside a decode step is C02's concern
				tot.Inconclusive["worker-died-resource-exhaustion (C02's concern)"]++
				tot.Runs++ // the run that died was executed
				if os.Getenv("VERIF_DEBUG_DEATHS") != "" {
					fmt.Fprintf(os.Stderr, "verifctl: DEATH: %s\n", msg)
				}
			} else {
				infra = append(infra, msg)
			}
		}
		if r.Error != "" {
			infra = append(infra, fmt.Sprintf("worker %d: %s", i, r.Error))
		}
		tot.Runs += r.Runs
		if r.RaceBuild {
			raceRuns += r.Runs
		}
		tot.Steps += r.Steps
		tot.SimTimeMs += r.SimTimeMs
		if r.WallMs > tot.WallMs {
			tot.WallMs = r.WallMs
		}
		for k, v := range r.Faults {
			tot.Faults[k] += v
		}
		for k, v := range r.Probes {
			tot.Probes[k] += v
		}
		for k, v := range r.Scenarios {
			tot.Scenarios[k] += v
		}
		for k, v := range r.Inconclusive {
			tot.Inconclusive[k] += v
		}
		for k, v := range r.Known {
			tot.Known[k] += v
		}
		for k, v := range r.KnownText {
			tot.KnownText[k] = v
		}
		for k, v := range r.RaceNotes {
			tot.RaceNotes[k] += v
		}
		for _, h := range r.Distinct {
			distinct[h] = true
		}
		for _, h := range r.ProjDistinct {
			proj[h] = true
		}
		for _, h := range r.StateDistinct {
			states[h] = true
		}
		if len(tot.Samples) < 3 {
			tot.Samples = append(tot.Samples, r.Samples...)
		}
		for _, raw := range r.Violations {
			// numbers are kept exact (json.Number): plans carry 64-bit values
			dec := json.NewDecoder(bytes.NewReader(raw))
			dec.UseNumber()
			var m map[string]interface{}
			if dec.Decode(&m) == nil {
				viols = append(viols, m)
			}
		}
	}
	// harness panics are infrastructure trouble, never violations
	var real []map[string]interface{}
	for _, v := range viols {
		vv, _ := v["violation"].(map[string]interface{})
		if vv != nil && vv["class"] == "harness-panic" {
			infra = append(infra, fmt.Sprintf("harness panic: %v", vv["msg"]))
			continue
		}
		real = append(real, v)
	}
	viols = real
	exit := 0
	var reported []string
	// confirm each violation by replaying it in a fresh process
	confirmedKey := map[string]bool{}
	for n, v := range viols {
		if n >= 12 || len(reported) >= 3 {
			break
		}
		if vv0, _ := v["violation"].(map[string]interface{}); vv0 != nil && confirmedKey[fmt.Sprint(vv0["class"], "|", vv0["key"])] {
			continue
		}
		dir := filepath.Join(verifDir, "replays", id)
		os.MkdirAll(dir, 0755)
		v["tree_hash"] = bo.TreeHash
		annotate(v, bo.Report)
		vv, _ := v["violation"].(map[string]interface{})
		class := fmt.Sprint(vv["class"])
		seedStr := fmt.Sprint(v["seed"])
		name := fmt.Sprintf("%s-%s-%s.json", id, sanitize(class), seedStr)
		path := filepath.Join(dir, name)
		b, _ := json.MarshalIndent(v, "", " ")
		os.WriteFile(path, b, 0644)
		ok, why := confirmReplay(bo, path, id, class)
		if !ok && (class == "hang" || class == "out-of-memory" || class == "fatal-error") {
			// a worker died and the same plan and choices do not kill a fresh
			// process: the machine, not the program (the watchdog runs on the
			// real clock)
			tot.Inconclusive["worker-died-not-reproduced"]++
			os.Remove(path)
			continue
		}
		if !ok {
			// the worker process that reported it had executed other runs before
			// (and minimised in that same process): derive the run again from its
			// seed in a fresh process, minimise there, and confirm that
			if sd, err := strconv.ParseInt(seedStr, 10, 64); err == nil && sd != 0 {
				if nv := rederive(bo, id, tier, sd, class, loadKnown()); nv != nil {
					nv["tree_hash"] = bo.TreeHash
					annotate(nv, bo.Report)
					b, _ := json.MarshalIndent(nv, "", " ")
					os.WriteFile(path, b, 0644)
					if ok2, _ := confirmReplay(bo, path, id, class); ok2 {
						ok, v = true, nv
						vv, _ = nv["violation"].(map[string]interface{})
					}
				}
			}
		}
		if !ok {
			// it depends on what the worker's process executed before (state the
			// program keeps for the life of its process): replay the worker's
			// history of runs, the shortest stretch of it that reproduces
			if h, _ := v["history"].(map[string]interface{}); h != nil {
				from, to := jsonInt(h["from"]), jsonInt(h["to"])
				for _, L := range []int64{4, 32, 256, 2048, 1 << 40} {
					f := to - L + 1
					if f < from {
						f = from
					}
					h2 := map[string]interface{}{"job_seed": h["job_seed"], "worker": h["worker"], "tier": h["tier"], "from": f, "to": to, "replay": true}
					nv := map[string]interface{}{}
					for k, x := range v {
						nv[k] = x
					}
					nv["history"] = h2
					nv["minimised"] = false
					nv["note"] = fmt.Sprintf("the violation depends on state the program keeps across the runs of one process: replay executes runs %d..%d of the reporting worker in a fresh process", f, to)
					delete(nv, "schedule_trace")
					b, _ := json.MarshalIndent(nv, "", " ")
					os.WriteFile(path, b, 0644)
					confirmTimeout = 180*time.Second + 3*wall
					ok2, _ := confirmReplay(bo, path, id, class)
					confirmTimeout = 0
					if ok2 {
						ok, v = true, nv
						vv, _ = nv["violation"].(map[string]interface{})
						break
					}
					if f == from {
						break
					}
				}
			}
		}
		if !ok {
			os.Remove(path)
			tot.Inconclusive["violation-not-reproduced-in-a-fresh-process"]++
			infra = append(infra, fmt.Sprintf("violation %s (run seed %s) did not replay in a fresh process: %s", class, seedStr, why))
			continue
		}
		confirmedKey[fmt.Sprint(vv["class"], "|", vv["key"])] = true
		fmt.Printf("VIOLATION property=%s replay=%s\n", id, path)
		fmt.Printf("  class=%s key=%v\n  %s\n", class, vv["key"], firstLines(fmt.Sprint(vv["msg"]), 12))
		reported = append(reported, path)
		exit = 1
	}
	for k, n := range tot.Known {
		fmt.Printf("KNOWN-FINDING: property=%s %s (%d occurrences; match %q)\n", id, tot.KnownText[k], n, k)
	}
	if len(infra) > 0 && exit == 0 {
		for _, m := range infra {
			fmt.Fprintf(os.Stderr, "verifctl: INFRA: %s\n", m)
		}
		exit = 2
	}
	if tot.Runs == 0 && exit == 0 {
		fmt.Fprintf(os.Stderr, "verifctl: no runs were executed\n")
		exit = 2
	}
	writeEvidence(id, tier, seed, pc, bo, tot, len(distinct), len(proj), len(states), wall, len(reported), raceRuns, infra)
	fmt.Printf("verifctl: %s %s: runs=%d steps=%d distinct=%d sim_time=%.0fs wall=%.1fs violations=%d known=%d inconclusive=%v exit=%d\n",
		id, tier, tot.Runs, tot.Steps, len(distinct), float64(tot.SimTimeMs)/1000, wall.Seconds(), len(reported), len(tot.Known), tot.Inconclusive, exit)
	return exit
}

// deathViolation classifies the death of a worker process as a property
// violation where the property speaks about it (hangs and crashes inside a
// decode step: C01, C02); the replay is the plan of the run in progress.
func deathViolation(id string, wr *workerRes) map[string]interface{} {
	if wr.Plan == nil || wr.Status == "" {
		return nil
	}
	class := ""
	msg := ""
	switch {
	case wr.Hang != "":
		class = "hang"
		msg = firstLines(wr.Hang, 30)
	case strings.Contains(wr.Output, "out of memory") || strings.Contains(wr.Output, "cannot allocate memory"):
		class = "out-of-memory"
		msg = fatalExcerpt(wr.Output)
	case strings.Contains(wr.Output, "fatal error:") || strings.Contains(wr.Output, "stack overflow"):
		class = "fatal-error"
		msg = fatalExcerpt(wr.Output)
	default:
		return nil
	}
	if id == "C01" && class != "fatal-error" {
		return nil
	}
	if id != "C01" && id != "C02" && class == "out-of-memory" {
		// the other checks feed well-formed input only: a hang (a deadlock,
		// a loop that never ends) or a fatal runtime error there is a failure
		// of the property at hand, once the replay dies as well; memory
		// exhaustion stays C02's concern
		return nil
	}
	fields := map[string]string{}
	for _, f := range strings.Fields(wr.Status) {
		if kv := strings.SplitN(f, "=", 2); len(kv) == 2 {
			fields[kv[0]] = kv[1]
		}
	}
	seed, _ := strconv.ParseInt(fields["seed"], 10, 64)
	return map[string]interface{}{
		"property": id, "scenario": fields["scenario"], "seed": seed, "plan": json.RawMessage(wr.Plan), "choices": []interface{}{}, "choice_seed": seed ^ 0x5eed,
		"violation": map[string]interface{}{"prop": id, "class": class, "key": class, "msg": msg}, "minimised": false,
		"note": "the worker process died while executing this plan; replay re-executes it with the same choice seed",
	}
}

// fatalExcerpt extracts the runtime's fatal message and the stack of the
// goroutine that was running from a crashed worker's output.
func fatalExcerpt(out string) string {
	i := strings.Index(out, "runtime: out of memory")
	if j := strings.Index(out, "fatal error:"); i < 0 || (j >= 0 && j < i) {
		i = j
	}
	if i < 0 {
		return tailStr(out, 1500)
	}
	ex := out[i:]
	var keep []string
	for _, l := range strings.Split(ex, "\n") {
		if strings.Contains(l, "/verifsim/simrt") || strings.Contains(l, "runtime/") || strings.HasPrefix(strings.TrimSpace(l), "runtime.") {
			if !strings.Contains(l, "fatal") && !strings.Contains(l, "out of memory") {
				continue
			}
		}
		keep = append(keep, l)
		if len(keep) > 30 || (len(keep) > 6 && strings.HasPrefix(l, "goroutine ") && !strings.Contains(l, "running")) {
			break
		}
	}
	return strings.Join(keep, "\n")
}

func annotate(v map[string]interface{}, rep *instr.Report) {
	if rep == nil {
		return
	}
	sites := map[int]instr.Site{}
	for _, s := range rep.Sites {
		sites[s.ID] = s
	}
	tr, _ := v["schedule_trace"].([]interface{})
	used := map[int]bool{}
	for _, st := range tr {
		if m, ok := st.(map[string]interface{}); ok {
			if n, ok := m["site"].(json.Number); ok {
				if f, err := n.Int64(); err == nil && f > 0 {
					used[int(f)] = true
				}
			}
		}
	}
	tab := map[string]string{}
	for id := range used {
		s := sites[id]
		tab[strconv.Itoa(id)] = fmt.Sprintf("%s:%d %s", s.File, s.Line, s.Kind)
	}
	v["site_table"] = tab
}

func sanitize(s string) string {
	var b strings.Builder
	for _, r := range s {
		if r >= 'a' && r <= 'z' || r >= 'A' && r <= 'Z' || r >= '0' && r <= '9' || r == '-' {
			b.WriteRune(r)
		} else {
			b.WriteRune('_')
		}
	}
	return b.String()
}

func firstLines(s string, n int) string {
	ls := strings.Split(s, "\n")
	if len(ls) > n {
		ls = ls[:n]
	}
	return strings.Join(ls, "\n  ")
}

func tailStr(s string, n int) string {
	if len(s) > n {
		return s[len(s)-n:]
	}
	return s
}

// confirmTimeout overrides the time a confirming replay may take (history replays).
var confirmTimeout time.Duration

func jsonInt(x interface{}) int64 {
	switch n := x.(type) {
	case json.Number:
		v, _ := n.Int64()
		return v
	case float64:
		return int64(n)
	case int64:
		return n
	case int:
		return int64(n)
	}
	return 0
}

// rederive executes the one run of the given seed in a fresh process (plan and
// choices are functions of the seed) and returns its minimised violation of
// the class, if it occurs there.
func rederive(bo *buildOut, id, tier string, seed int64, class string, known []KnownFinding) map[string]interface{} {
	bin := bo.Bin
	if bin == "" || (strings.HasPrefix(class, "race") && bo.RaceBin != "") {
		bin = bo.RaceBin
	}
	job := &Job{Prop: id, Tier: tier, Worker: 901, NWorkers: 1, BudgetSec: 120, MaxRuns: 1, Minimise: true, MinBudget: 20, Known: known, OnlySeed: seed}
	wr := runWorker(bin, job, bo.Scratch, 6000, 240*time.Second)
	if wr.Raw == nil {
		return nil
	}
	var r Result
	json.Unmarshal(wr.Raw, &r)
	for _, raw := range r.Violations {
		dec := json.NewDecoder(bytes.NewReader(raw))
		dec.UseNumber()
		var m map[string]interface{}
		if dec.Decode(&m) != nil {
			continue
		}
		if vv, _ := m["violation"].(map[string]interface{}); vv != nil && fmt.Sprint(vv["class"]) == class {
			return m
		}
	}
	return nil
}

// confirmReplay runs the replay file in a fresh process; the same violation
// class must recur.
func confirmReplay(bo *buildOut, path, id, class string) (bool, string) {
	job := &Job{Prop: id, Worker: 900, Replay: path, BudgetSec: 60}
	bin := bo.Bin
	if bin == "" {
		bin = bo.RaceBin
	}
	// race-only violations need the race binary
	if strings.HasPrefix(class, "race") && bo.RaceBin != "" {
		bin = bo.RaceBin
	}
	to := 120 * time.Second
	if confirmTimeout > 0 {
		to = confirmTimeout
	}
	wr := runWorker(bin, job, bo.Scratch, 6000, to)
	if class == "hang" || class == "out-of-memory" || class == "fatal-error" {
		// resource exhaustion / fatal runtime error inside a decode step: the
		// replay must kill the fresh process as well (watchdog, RLIMIT_AS or
		// the runtime's fatal error); which of the three it is may differ
		// with machine load
		if wr.Hang != "" || (wr.ExitCode != 0 && wr.Raw == nil) {
			return true, ""
		}
		return false, fmt.Sprintf("the process survived the replay (exit %d)", wr.ExitCode)
	}
	if wr.Raw == nil {
		return false, fmt.Sprintf("no output (exit %d): %s", wr.ExitCode, tailStr(wr.Output, 800))
	}
	var r Result
	json.Unmarshal(wr.Raw, &r)
	for _, raw := range r.Violations {
		var v map[string]interface{}
		json.Unmarshal(raw, &v)
		vv, _ := v["violation"].(map[string]interface{})
		if vv != nil && fmt.Sprint(vv["class"]) == class {
			return true, ""
		}
	}
	return false, "class did not recur: " + strings.Join(r.TraceLog, "; ") + r.Error
}

func cmdReplay(path string) int {
	b, err := os.ReadFile(path)
	if err != nil {
		die(2, "%v", err)
	}
	var rp map[string]interface{}
	if err := json.Unmarshal(b, &rp); err != nil {
		die(2, "%v", err)
	}
	id := fmt.Sprint(rp["property"])
	vv, _ := rp["violation"].(map[string]interface{})
	class := fmt.Sprint(vv["class"])
	pc := props[id]
	race := pc != nil && pc.Race && strings.HasPrefix(class, "race")
	bo, err := build(race, false)
	defer func() {
		if os.Getenv("VERIF_KEEP") == "" && bo != nil {
			os.RemoveAll(bo.Scratch)
		}
	}()
	if err != nil {
		fmt.Fprintf(os.Stderr, "verifctl: build failed: %v\n", err)
		return 2
	}
	abs, _ := filepath.Abs(path)
	ok, why := confirmReplay(bo, abs, id, class)
	if ok {
		fmt.Printf("VIOLATION property=%s replay=%s\n  class=%s reproduced\n  %s\n", id, path, class, firstLines(fmt.Sprint(vv["msg"]), 10))
		return 1
	}
	fmt.Printf("verifctl: replay of %s did not reproduce class %s: %s\n", path, class, why)
	return 0
}

func writeEvidence(id, tier string, seed int64, pc *PropCfg, bo *buildOut, tot *Result, distinct, proj, states int, wall time.Duration, nviol, raceRuns int, infra []string) {
	if os.Getenv("VERIF_NO_EVIDENCE") != "" {
		return // runs against a deliberately broken tree (tool/try_mut.sh) leave the evidence alone
	}
	hours := wall.Hours()
	if hours <= 0 {
		hours = 1e-9
	}
	samples := tot.Samples
	if len(samples) == 0 {
		samples = []interface{}{"no run completed"}
	}
	cov := map[string]interface{}{
		"evaluations":                   tot.Runs,
		"distinct_nontrivial":           distinct,
		"rule":                          pc.Rule,
		"samples":                       samples,
		"runs_per_hour":                 int(float64(tot.Runs) / hours),
		"seeds_per_hour":                int(float64(tot.Runs) / hours),
		"simulated_seconds":             float64(tot.SimTimeMs) / 1000,
		"scheduler_steps":               tot.Steps,
		"faults_fired":                  tot.Faults,
		"reach_probes":                  tot.Probes,
		"scenarios":                     tot.Scenarios,
		"distinct_schedule_projections": proj,
		"distinct_state_fingerprints":   states,
		"inconclusive":                  tot.Inconclusive,
		"known_findings_seen":           tot.Known,
		"race_build_runs":               raceRuns,
		"race_notes":                    tot.RaceNotes,
		"instrumented_sites":            len(bo.Report.Sites),
		"rewritten_selectors":           bo.Report.Rewritten,
		"unsimulated_io_selectors":      bo.Report.Unsimulated,
		"instrumenter_warnings":         bo.Report.Warnings,
		"tree_hash":                     bo.TreeHash,
		"build_seconds":                 bo.BuildSec,
		"workers":                       nWorkers(),
		"real_vs_stub": map[string]string{
			"real":      "vflow main package (main, GetOptions, run/shutdown/workers, stats handler, mirror), ipfix, netflow/v9, netflow/v5, sflow, packet, reader, producer (Producer, RawSocket), mirror; Go runtime, channels, mutexes, encoding/json, yaml, flag, log",
			"simulated": "UDP sockets, sink connection, disk, raw socket, sync.Pool, signals, exit, env/argv, clock (synctest), goroutine scheduling",
			"not_run":   "Kafka/NSQ/NATS clients, HTTP listener (handler called directly), RPC client loop and multicast discovery, consumers, monitor, stress",
		},
		"exhaustive": false,
	}
	if len(infra) > 0 {
		cov["infrastructure_trouble"] = infra
	}
	ev := map[string]interface{}{
		"property_id": id, "tier": tier, "seed": seed, "level": pc.Level, "coverage": cov, "assumptions": pc.Assumptions,
		"wall_s": wall.Seconds(), "violations": nviol,
	}
	b, _ := json.MarshalIndent(ev, "", " ")
	os.MkdirAll(filepath.Join(verifDir, "evidence"), 0755)
	os.WriteFile(filepath.Join(verifDir, "evidence", id+".json"), b, 0644)
}

func cmdSelftestDeterminism(prop string, nseeds int) int {
	bo, err := build(false, false)
	defer func() {
		if bo != nil && os.Getenv("VERIF_KEEP") == "" {
			os.RemoveAll(bo.Scratch)
		}
	}()
	if err != nil {
		fmt.Fprintf(os.Stderr, "build failed: %v\n", err)
		return 2
	}
	ids := []string{prop}
	if prop == "all" {
		ids = nil
		for id := range props {
			ids = append(ids, id)
		}
		sort.Strings(ids)
	}
	rc := 0
	for _, id := range ids {
		if determinismOne(bo, id, nseeds) != 0 {
			rc = 1
		}
	}
	return rc
}

// determinismOne runs the same job (same seeds) in several fresh processes at
// different GOMAXPROCS and compares the per-run logs.
func determinismOne(bo *buildOut, prop string, nseeds int) int {
	procs := []string{"1", "4", "16", "2", "8", "1"}
	var wg sync.WaitGroup
	logs := make([][]string, len(procs))
	for i, gp := range procs {
		wg.Add(1)
		go func(i int, gp string) {
			defer wg.Done()
			dir := filepath.Join(bo.Scratch, fmt.Sprintf("det-%s-%d", prop, i))
			os.MkdirAll(dir, 0755)
			job := &Job{Prop: prop, Tier: "quick", Seed: 7, Worker: 0, NWorkers: 1, BudgetSec: 600, MaxRuns: nseeds, TraceAll: true, Known: loadKnown()}
			wr := runWorker(bo.Bin, job, dir, 6000, 600*time.Second, "GOMAXPROCS="+gp)
			var r Result
			if wr.Raw != nil {
				json.Unmarshal(wr.Raw, &r)
			}
			logs[i] = r.TraceLog
		}(i, gp)
	}
	wg.Wait()
	bad := 0
	for i := 1; i < len(logs); i++ {
		if len(logs[i]) != len(logs[0]) {
			fmt.Printf("%s: process %d logged %d runs, process 0 %d\n", prop, i, len(logs[i]), len(logs[0]))
			bad++
			continue
		}
		for j := range logs[0] {
			if logs[i][j] != logs[0][j] {
				fmt.Printf("%s: DIVERGENCE run %d: proc0 %q vs proc%d %q\n", prop, j, logs[0][j], i, logs[i][j])
				bad++
			}
		}
	}
	fmt.Printf("determinism %s: %d runs x %d processes, %d divergences\n", prop, len(logs[0]), len(logs), bad)
	if bad > 0 || len(logs[0]) == 0 {
		return 1
	}
	return 0
}

// cmdSelftestTransparency runs the repository's own test suite against an
// instrumented copy (simrt in pass-through mode: no simulation is active, so
// yields are no-ops and the seams forward to the real OS). The instrumented
// code must pass exactly the tests the pristine code passes.
func cmdSelftestTransparency() int {
	scratch := fmt.Sprintf("/var/tmp/vflow-verif-transp.%d", os.Getpid())
	os.RemoveAll(scratch)
	defer os.RemoveAll(scratch)
	src := filepath.Join(scratch, "src")
	copyTests = true
	if err := copyTree(src); err != nil {
		fmt.Fprintln(os.Stderr, err)
		return 2
	}
	copyTests = false
	rep, err := instr.Instrument(instr.Config{Root: src, Module: modPath, Pkgs: pkgDirs, SimrtPkg: simrtPath, GoCmd: goCmd, Env: goEnv()})
	if err != nil {
		fmt.Fprintf(os.Stderr, "instrumenter: %v\n", err)
		return 2
	}
	if err := copyDir(filepath.Join(verifDir, "engine", "simrt"), filepath.Join(src, "verifsim", "simrt"), nil); err != nil {
		fmt.Fprintln(os.Stderr, err)
		return 2
	}
	args := []string{"test", "-vet=off", "-count=1", "-json"}
	for _, p := range pkgDirs {
		args = append(args, "./"+p)
	}
	cmd := exec.Command(goCmd, args...)
	cmd.Dir = src
	cmd.Env = append(goEnv(), "GODEBUG=asynctimerchan=0")
	out, _ := cmd.CombinedOutput()
	pass, fail := map[string]bool{}, map[string]bool{}
	for _, l := range strings.Split(string(out), "\n") {
		var ev struct{ Action, Package, Test string }
		if json.Unmarshal([]byte(l), &ev) != nil || ev.Test == "" {
			continue
		}
		switch ev.Action {
		case "pass":
			pass[ev.Package+"::"+ev.Test] = true
		case "fail":
			fail[ev.Package+"::"+ev.Test] = true
		}
	}
	// expected: the stable baseline, restricted to the instrumented packages
	var base struct {
		StablePass []string `json:"stable_pass"`
	}
	if b, err := os.ReadFile("/root/.vp/BASELINE.json"); err == nil {
		json.Unmarshal(b, &base)
	}
	missing := 0
	checked := 0
	for _, t := range base.StablePass {
		in := false
		for _, p := range pkgDirs {
			if strings.HasPrefix(t, modPath+"/"+p+"::") {
				in = true
			}
		}
		if !in {
			continue
		}
		checked++
		if !pass[t] {
			fmt.Printf("transparency: baseline test %s does not pass on the instrumented copy\n", t)
			missing++
		}
	}
	for t := range fail {
		fmt.Printf("transparency: %s FAILS on the instrumented copy\n", t)
	}
	fmt.Printf("transparency: %d instrumented sites, %d loop ticks; %d tests pass on the instrumented copy, %d fail; %d of %d baseline tests of the instrumented packages pass\n",
		len(rep.Sites), rep.Ticks, len(pass), len(fail), checked-missing, checked)
	if missing > 0 || len(fail) > 0 || checked == 0 {
		if len(pass) == 0 {
			fmt.Println(tailStr(string(out), 2000))
		}
		return 1
	}
	return 0
}

func main() {
	if len(os.Args) < 2 {
		die(2, "usage: verifctl check <id> --tier quick|thorough | replay <file> | selftest determinism")
	}
	switch os.Args[1] {
	case "check":
		if len(os.Args) < 3 {
			die(2, "check needs a property id")
		}
		tier := os.Getenv("VERIF_TIER")
		if tier == "" {
			tier = "quick"
		}
		for i := 3; i < len(os.Args); i++ {
			if os.Args[i] == "--tier" && i+1 < len(os.Args) {
				tier = os.Args[i+1]
			}
		}
		os.Exit(cmdCheck(os.Args[2], tier))
	case "replay":
		if len(os.Args) < 3 {
			die(2, "replay needs a file")
		}
		os.Exit(cmdReplay(os.Args[2]))
	case "build":
		os.Setenv("VERIF_KEEP", "1")
		bo, err := build(false, len(os.Args) > 2 && os.Args[2] == "--race")
		if err != nil {
			fmt.Fprintln(os.Stderr, err)
			os.Exit(2)
		}
		fmt.Println(bo.Scratch)
	case "selftest":
		if len(os.Args) > 2 && os.Args[2] == "transparency" {
			os.Exit(cmdSelftestTransparency())
		}
		prop := "C12"
		n := 30
		for i := 2; i < len(os.Args); i++ {
			if os.Args[i] == "--prop" && i+1 < len(os.Args) {
				prop = os.Args[i+1]
			}
			if os.Args[i] == "--n" && i+1 < len(os.Args) {
				n, _ = strconv.Atoi(os.Args[i+1])
			}
		}
		os.Exit(cmdSelftestDeterminism(prop, n))
	default:
		die(2, "unknown command %s", os.Args[1])
	}
	_ = sort.Strings
}
