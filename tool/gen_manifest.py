#!/usr/bin/env python3
"""Regenerates /verif/MANIFEST.json from the table below (developer helper)."""
import json

SETUP = "cd /verif/tool && GOFLAGS=-mod=mod GOPROXY=off GOSUMDB=off GOTOOLCHAIN=local go1.26.8 build -o /verif/bin/verifctl ./cmd/verifctl"

TB = ("Trusted base: the AST instrumentation of the scratch copy preserves vFlow's meaning (checked by running the stock test "
      "suite on an instrumented copy, and by behaviour-preserving refactorings that must pass); the seeded scheduler serializes "
      "execution between scheduling points (code takes zero simulated time; program mutexes are simulated, so tasks are also "
      "descheduled inside critical sections); the Go runtime, encoding/json, yaml and testing/synctest; sampling, not enumeration: a clean batch is evidence, not proof.")

# id -> (category, technique, text, note-extra, design_ref)
CHECKS = {
 "C01": ("exploration", "deterministic simulation: seeded hostile datagram histories (model-generated traffic + transport corruption) through the real decoders/encoders under the simulator; panic/exit oracle",
         "Seeded search over histories of well-formed, structurally hostile and byte-corrupted datagrams of all four protocols (every reachable template-cache state incl. degenerate templates), fed to the real decode+encode path; any panic, fatal error or process death is a violation with a minimised replay. Library-level histories plus whole-pipeline hostile runs with liveness probes.",
         "Samples the input space; datagrams up to 65 kB.", "7 C01"),
 "C02": ("exploration", "deterministic simulation: per-call loop-iteration budget (instrumented loop heads), allocation metering and record-count bound on seeded hostile histories",
         "Same hostile histories as C01; every call is metered: loop iterations between two scheduling points are bounded (fuel injected at every loop head by the instrumenter), TotalAlloc delta <= 1 MiB + 2 KiB/octet, records <= octets; a worker killed by the wall-clock watchdog or by RLIMIT_AS inside a decode step is confirmed in a fresh process and reported.",
         "The fuel bound (5e6 iterations) and allocation bound are generous constants of the harness, not of vFlow.", "7 C02"),
 "C03": ("exploration", "deterministic simulation of the whole pipeline; oracle = independent IPFIX wire model (encoder + expected decode) compared semantically with the published JSON",
         "Seeded IPFIX workloads (templates over the IANA snapshot and enterprise elements installed through the real LoadExtElements path, options templates, reduced and variable lengths incl. 3-octet prefixes, records of any size >= 1 octet, padding, several sets) through the real main(); every published message must equal the wire model's expectation field for field.",
         "The information-model snapshot is frozen from the pinned commit (not independent of it). Input-only property: the schedule dimension is exercised but not needed.", "7 C03"),
 "C05": ("exploration", "deterministic simulation of the whole pipeline; strict JSON parse of every published payload + semantic equality with the wire models of all four protocols",
         "Every payload taken from the message-queue channels must be exactly one valid JSON document and carry the model's expectation: strings with quotes, backslashes, control and non-UTF-8 octets, booleans, NaN/Inf, 64-bit extremes, IPv4/IPv6 exporters.",
         "Non-finite floats: validity and a non-number rendering are required, nothing more specific.", "7 C05"),
 "C06": ("exploration", "deterministic simulation of the whole pipeline; oracle = independent NetFlow v9 wire model compared semantically with the published JSON",
         "As C03 for NetFlow v9: template and options-template flowsets (scope/option lengths in octets), reduced lengths, padding to 4, records of any size.",
         "Padding at least as long as a record is excluded as not well-formed (ambiguous on the wire).", "7 C06"),
 "C07": ("exploration", "deterministic simulation of the whole pipeline; oracle = independent sFlow v5 wire model (samples, records, sampled headers L2-L4, six counter layouts)",
         "Seeded sFlow datagrams with any mix/order of flow, counter and unknown samples and records; sampled headers Ethernet/IPv4/IPv6 x TCP/UDP/ICMP with/without 802.1Q and XDR padding; published JSON must equal the model field for field.",
         "Narrow readings: 802.1Q priority bits zero, IPv4 IHL 5, TCP reserved bits zero, at most one record of each supported type per sample.", "7 C07"),
 "C08": ("exploration", "deterministic simulation of the whole pipeline; oracle = independent NetFlow v5 model incl. rejection rules",
         "All headers x counts 0..40 x record contents x datagram lengths (short, exact, trailing octets): exactly the announced flows, every field equal, dotted addresses; otherwise nothing published.", "", "7 C08"),
 "C12": ("exploration", "deterministic simulation: seeded interleavings of receive loops, N workers and queue consumers with poisoning deterministic buffer pool; oracle = byte equality with isolated real decode; plus a -race build batch on the same schedules",
         "Whole pipeline under the seeded scheduler (1..8 workers, channel capacities 1..1000, pool reuse LIFO/FIFO/random with poison on Put, bounded stalls, duplicates, same-instant bursts, mirror on/off): each published payload must be byte-for-byte what the real decoder produces for that datagram alone with a private cache.",
         "Real decoder used as the isolated reference, so decoder defects do not leak into this verdict.", "7 C12"),
 "C13": ("exploration", "deterministic simulation: accounting model over the network's delivery record; counters read through the real /flow handler at quiescent points; published multiset",
         "UDPCount equals datagrams read from the simulated socket (exact, monotone) at every quiescent point, DecodedCount lies in the model's interval, exactly one message per datagram that yields records, none twice, none for datagrams not received; mixed decodable / template-only / unknown-template / malformed traffic, any worker count and interleaving.",
         "DecodedCount is left open for unknown-template and zero-sample datagrams (statement ambiguous).", "7 C13"),
 "C04": ("exploration", "deterministic simulation of the template caches through their exported API: sequential histories against an exact map model and concurrent histories checked per key with porcupine; adversarial FNV-1-colliding keys found by birthday search",
         "Seeded histories of announcements, re-announcements with a different definition (different elements, or the same elements with other lengths) and data/peer/dump reads from several exporters over shared ids, run by 1..6 tasks under the seeded scheduler; every read must observe the latest announcement of exactly that exporter/id in some linearization, unknown otherwise; colliding (exporter,id) pairs are generated on purpose.",
         "The hash-collision weakness is a recorded KNOWN finding (KNOWN_FINDINGS); any other violation still fails the check. Templates fetched through the RPC client loop are not exercised (DESIGN.md 10).", "7 C04"),
 "C09": ("fault_enumeration", "metamorphic checks on the real decoder under the simulator: insertion of undecodable sets at set boundaries; truncation (transport fault) enumerated over every octet offset",
         "For seeded well-formed IPFIX/v9 messages: (a) inserting a reserved-id set, an unknown-template set or a data set over an element missing from the model at any set boundary leaves the other sets' records unchanged; (b) for every truncation offset 0..len (all offsets in thorough and in a quarter of quick runs) the records emitted are a prefix of the complete datagram's records.",
         "Fault enumeration over the truncation point per message; messages themselves are sampled.", "7 C09"),
 "C10": ("exploration", "deterministic simulation: N tasks decode/announce, dump and peer-get concurrently under the seeded scheduler (program mutexes simulated: yields at every lock operation and inside critical sections, lock waits as scheduler states, circular waits reported as deadlock); porcupine per key; the same runs in a -race build with the scheduler's hand-offs hidden from the detector",
         "2..7 tasks issue announcements, data decodes, Dump to the simulated disk and IRPC.Get over overlapping keys; oracles: no panic, no deadlock, every observed template is a complete announced version of that key, per-key linearizability (porcupine), every dump loads back, and in the race build zero race reports between cache-package operations (blindness canary checked at the start of every race worker).",
         "Race reports are violations only when both sides are template-cache package code. The detector keeps a bounded history per word.", "7 C10"),
 "C11": ("fault_enumeration", "simulated disk: crash-point enumeration over every prefix of the dumped file plus torn tails, byte- and structure-level corruptions, absent/empty/unreadable files; reload with the real GetCache and probe every saved key",
         "Caches built by decoding seeded template messages (plain/options/enterprise, re-announcements) are dumped; the intact file must round-trip (every saved key decodes byte-identically); every prefix (all in thorough, boundaries + 60 samples in quick), torn tails, flips, deletions, insertions and 19 structural edits must load without panic into a usable cache in which saved keys decode as before or are unknown.",
         "Hand-edited templates are by construction not in the saved cache: for those only no-panic and usability are required.", "7 C11"),
 "C14": ("exploration", "deterministic simulation of the real Producer/RawSocket over a simulated TCP/UDP sink with a seeded fault script (reset/close/torn write at byte offsets inside the stream, dead-accept, downtime, refused dials); oracle = sink stream model with bounded-liveness",
         "1..500 unique messages (JSON text, '%' sequences, multi-kilobyte lines, arbitrary octets) handed to the real producer; what the sink received, connection by connection, must be an in-order, duplicate-free, byte-identical, newline-terminated subsequence; an unterminated tail only on a broken connection and only as a prefix of a handed message; once the sink is reachable again at most deadAccept+3 messages per failure may be missing.",
         "Raw-socket backend only: Kafka/NSQ/NATS clients need brokers and are not simulated.", "7 C14"),
 "C15": ("exploration", "deterministic simulation of the real main(): seeded traffic, SIGTERM/SIGINT at drawn simulated instants (also during boot, at delivery instants and around the end of the shutdown sleep), bounded stalls, restart on the same simulated disk; plus a -race build batch",
         "Oracles: main returns with status 0 within 5 simulated seconds of the signal, no task panics, both cache files are valid JSON with the right shard number, and after the restart data for every template acknowledged (quiescence-stamped) before the signal decodes and is published exactly as the wire model says, over 2..3 stop/start cycles; in the race build a template-cache dump racing a worker is a violation.",
         "Stalls are bounded by D_max = 50 ms (20 times below vFlow's 1 s guard); boot-versus-shutdown formal races are notes, not violations.", "7 C15"),
 "C17": ("exploration", "simulated boots of the real GetOptions / main() with per-boot environment, argv and configuration file on the simulated disk (incl. absent/unreadable/empty file, -config path); precedence model over all 8 source subsets",
         "For every yaml-tagged setting of kind int/string/bool (key table and flag names discovered by reflection on the running binary) and every subset of {environment, file, command line} with pairwise different values: effective value = flag > file > env > default, read from the options the collector uses and, for ports/workers/enable switches/stats port, from its behaviour (bound simulated sockets, /flow stats, HTTP listen address).",
         "Configuration-only property: the simulator contributes the virtualised boot and the disk faults, no schedule dimension.", "7 C17"),
 "C20": ("exploration", "two simulated boots (shipped ipfix.elements installed / absent) through the real LoadExtElements + exhaustive element sweep through the pipeline; state invariant + wire model + differential between boots",
         "After each boot every information-model entry must be keyed by its own id and carry the snapshot's name and abstract type; templates covering all 402 elements with type-separating values are decoded in both boots: published messages must equal the model and be byte-identical between boots. Exhaustive over elements in every run.",
         "The registry snapshot is frozen from the pinned commit: an error common to both tables at that commit is invisible.", "7 C20"),
 "C16": ("exploration", "deterministic simulation of the whole pipeline with mirroring on; the raw socket is simulated at the syscall seam, so the real mirror package builds every packet; packet model + multiset matching",
         "For every received IPFIX/sFlow datagram from an IPv4 exporter (4-byte and 16-byte form), payload lengths up to and including max-udp-size (600..65507), mirror queue capacities 1..1000: exactly one IPv4/UDP packet with consistent lengths, protocol 17, exporter source, configured target/port, identical payload; no panic.",
         "IPv4 targets only; IPv6 exporters are outside the statement.", "7 C16"),
 "C18": ("exploration", "deterministic simulation of the whole pipeline with sflow-type-filter drawn per boot; oracle = sFlow wire model minus the filtered sample types",
         "C07 workload with filters (flow, counter, unknown types, several) passed on the command line of the simulated boot; published output must equal the model with exactly the listed sample types removed.", "", "7 C18"),
}

NA = [
 ("C19", "pure single-threaded data structure over an in-memory slice: no schedule, clock, I/O or fault for the property to depend on (DESIGN.md 7 C19); exercised indirectly by C01/C03/C06/C08/C09"),
]

PENDING = {
 "C04": "check not registered yet (cache scenario under construction)",
 "C09": "check not registered yet (library-level scenario under construction)",
 "C10": "check not registered yet (cache scenario under construction)",
 "C11": "check not registered yet (simulated-disk scenario under construction)",
 "C14": "check not registered yet (producer scenario under construction)",
 "C15": "check not registered yet (life-cycle scenario under construction)",
 "C16": "check not registered yet (mirror scenario under construction)",
 "C17": "check not registered yet (boot scenario under construction)",
 "C20": "check not registered yet (boot scenario under construction)",
}

def main():
    checks = []
    for pid in sorted(CHECKS):
        cat, tech, text, note, ref = CHECKS[pid]
        checks.append({
            "property_id": pid,
            "quick_cmd": "./bin/verifctl check %s --tier quick" % pid,
            "thorough_cmd": "./bin/verifctl check %s --tier thorough" % pid,
            "evidence_file": "/verif/evidence/%s.json" % pid,
            "replay_cmd_template": "./bin/verifctl replay {path}",
            "engine": "verifctl",
            "level_claimed": {"category": cat, "text": text, "design_ref": "DESIGN.md " + ref},
            "level_note": (note + " " if note else "") + TB,
            "technique": tech,
        })
    na = [{"property_id": p, "reason": r} for p, r in NA]
    for p in sorted(PENDING):
        if p not in CHECKS:
            na.append({"property_id": p, "reason": PENDING[p]})
    m = {
        "version": 1,
        "setup_cmd": SETUP,
        "hooks": {
            "guard": "verif",
            "enable": "no hook lives in /repo: every check copies /repo's working tree to a scratch directory under /var/tmp, rewrites it with /verif/tool/instr (go/ast instrumentation: yields, seams) and adds driver files tagged 'verif'; built with go1.26.8 test -c -tags verif [-race]",
            "baseline_off_cmd": "cd /repo && GOFLAGS=-mod=mod GOPROXY=off GOSUMDB=off go test -vet=off -count=1 ./...",
            "source_commits": [],
            "add_only": True,
        },
        "engines": [{
            "name": "verifctl", "path": "/verif/tool", "serves_properties": sorted(CHECKS),
            "kind_free_text": "deterministic simulation with fault injection: AST-instrumented scratch copy of vFlow + seeded cooperative scheduler inside a testing/synctest bubble (fake clock) + simulated UDP network, sink connection, disk, buffer pools, raw socket, signals; reference models as oracles; replay files with minimised plan and schedule",
        }],
        "checks": checks,
        "notes": "VERIF_SEED selects the batch of seeds; VERIF_WORKERS / VERIF_BUDGET_SEC override parallelism and per-worker budget. Exit 2 = infrastructure trouble, never a VIOLATION.",
        "not_applicable": na,
    }
    json.dump(m, open("/verif/MANIFEST.json", "w"), indent=1)
    print("checks:", len(checks), "not_applicable:", len(na))

main()
