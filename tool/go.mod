module veriftool

go 1.26.8

require golang.org/x/tools v0.29.0
