// Package instr rewrites a scratch copy of vFlow so that every source of
// nondeterminism goes through verifsim/simrt (DESIGN.md 3.1). It is table
// driven and matches selectors and statement kinds, never line numbers, so it
// keeps working when /repo has been edited.
package instr

import (
	"bytes"
	"encoding/json"
	"fmt"
	"go/ast"
	"go/build"
	"go/importer"
	"go/parser"
	"go/printer"
	"go/token"
	"go/types"
	"io"
	"os"
	"os/exec"
	"path/filepath"
	"sort"
	"strconv"
	"strings"

	"golang.org/x/tools/go/ast/astutil"
)

// Site describes one instrumented location.
type Site struct {
	ID   int    `json:"id"`
	File string `json:"file"`
	Line int    `json:"line"`
	Kind string `json:"kind"`
}

// Report is what the instrumenter did.
type Report struct {
	Sites       []Site         `json:"sites"`
	Rewritten   map[string]int `json:"rewritten_selectors"`
	Unsimulated map[string]int `json:"unsimulated_io_selectors"`
	Warnings    []string       `json:"warnings"`
	TypeErrors  int            `json:"type_errors"`
	Ticks       int            `json:"loop_ticks"`
	Files       int            `json:"files"`
}

// Config for one instrumentation pass.
type Config struct {
	Root     string   // scratch copy root (module root)
	Module   string   // module path, e.g. github.com/EdgeCast/vflow
	Pkgs     []string // package dirs relative to Root
	SimrtPkg string   // import path of simrt inside the copy
	GoCmd    string   // go command used for `go list -export`
	Env      []string
}

// selector table: import path -> name -> replacement (simrt.<name>), special
// forms start with '!'.
var selTable = map[string]map[string]string{
	"net": {
		"ListenUDP": "ListenUDP", "UDPConn": "UDPConn", "Dial": "Dial", "DialTimeout": "DialTimeout",
		"Listen": "Listen", "ListenPacket": "ListenPacket",
	},
	"io/ioutil": {"ReadFile": "ReadFile", "WriteFile": "WriteFile", "TempFile": "CreateTemp"},
	"os": {
		"ReadFile": "ReadFile", "WriteFile": "WriteFile", "OpenFile": "OpenFile", "Create": "Create", "Open": "Open",
		"Stat": "Stat", "Getenv": "Getenv", "LookupEnv": "LookupEnv", "Exit": "Exit", "Getpid": "Getpid",
		"Args": "!call:Args", "Stderr": "Stderr", "File": "File",
		"Rename": "Rename", "Remove": "Remove", "RemoveAll": "RemoveAll", "MkdirAll": "MkdirAll", "Mkdir": "Mkdir",
		"Truncate": "Truncate", "Chmod": "Chmod", "CreateTemp": "CreateTemp", "TempDir": "TempDir", "Lstat": "Lstat",
	},
	"os/signal": {"Notify": "Notify"},
	"os/exec":   {"Command": "Command"},
	"sync":      {"Pool": "Pool"},
	"syscall":   {"Socket": "Socket", "Sendto": "Sendto", "Close": "CloseFD"},
	"runtime":   {"GOMAXPROCS": "GOMAXPROCS", "NumCPU": "NumCPU"},
	"net/http":  {"ListenAndServe": "HTTPListenAndServe"},
	"log":       {"Fatal": "!fatal:LogFatal", "Fatalf": "!fatal:LogFatalf", "Fatalln": "!fatal:LogFatalln"},
	"flag":      {"*": "!flag"},
}

// packages whose remaining selectors are reported as un-simulated I/O
var ioPkgs = map[string]bool{"net": true, "os": true, "io/ioutil": true, "syscall": true, "os/exec": true, "os/signal": true, "net/http": true, "net/rpc": true}

// harmless selectors of those packages (types, pure helpers)
var ioHarmless = map[string]bool{
	"net.IP": true, "net.UDPAddr": true, "net.JoinHostPort": true, "net.ResolveUDPAddr": true, "net.ParseIP": true,
	"net.HardwareAddr": true, "net.Conn": true, "net.SplitHostPort": true, "net.ParseCIDR": true, "net.Interface": true,
	"net.IPv4": true, "net.IPv4len": true, "net.IPv6len": true, "net.Addr": true, "net.TCPAddr": true, "net.OpError": true,
	"os.Signal": true, "os.IsNotExist": true, "os.O_RDWR": true, "os.O_CREATE": true, "os.O_APPEND": true, "os.O_WRONLY": true,
	"os.O_TRUNC": true, "os.O_RDONLY": true, "os.FileMode": true, "os.FileInfo": true, "os.IsExist": true,
	"os.O_EXCL": true, "os.O_SYNC": true, "os.ErrNotExist": true, "os.ErrExist": true, "os.PathError": true, "os.LinkError": true,
	"os.ModePerm": true, "os.PathSeparator": true, "os.IsPermission": true, "os.IsTimeout": true, "os.ErrDeadlineExceeded": true,
	"net.Error": true, "net.ErrClosed": true, "net.IPv6zero": true, "net.IPv4zero": true, "net.IPMask": true, "net.IPNet": true,
	"net.UDPAddrFromAddrPort": true, "net.ParseMAC": true, "net.CIDRMask": true, "net.IPv4Mask": true, "net.InvalidAddrError": true,
	"syscall.EPIPE": true, "syscall.ECONNRESET": true, "syscall.ENOSPC": true, "syscall.EINVAL": true, "syscall.Errno": true, "syscall.ENOENT": true,
	"syscall.SIGHUP": true, "syscall.SIGQUIT": true, "syscall.SIGUSR1": true, "syscall.SIGUSR2": true, "syscall.Signal": true,
	"syscall.SIGINT": true, "syscall.SIGTERM": true, "syscall.SOCK_RAW": true, "syscall.IPPROTO_RAW": true, "syscall.AF_INET": true,
	"syscall.AF_INET6": true, "syscall.Sockaddr": true, "syscall.SockaddrInet4": true, "syscall.SockaddrInet6": true,
	"net/http.ResponseWriter": true, "net/http.Request": true, "net/http.HandlerFunc": true, "net/http.NewServeMux": true,
	"net/http.Handle": true, "net/http.Handler": true, "os.Stdout": true,
}

type instrumenter struct {
	cfg    Config
	fset   *token.FileSet
	rep    *Report
	nextID int
	lookup func(path string) (io.ReadCloser, error)
}

// Instrument rewrites the packages in place.
func Instrument(cfg Config) (*Report, error) {
	in := &instrumenter{cfg: cfg, fset: token.NewFileSet(), rep: &Report{Rewritten: map[string]int{}, Unsimulated: map[string]int{}}, nextID: 1}
	exports, err := in.listExports()
	if err != nil {
		in.rep.Warnings = append(in.rep.Warnings, "go list -export failed, falling back to syntactic mode: "+err.Error())
	}
	in.lookup = func(path string) (io.ReadCloser, error) {
		f, ok := exports[path]
		if !ok || f == "" {
			return nil, fmt.Errorf("no export data for %s", path)
		}
		return os.Open(f)
	}
	imp := importer.ForCompiler(in.fset, "gc", in.lookup)
	for _, p := range cfg.Pkgs {
		if err := in.doPkg(p, imp, exports != nil); err != nil {
			return in.rep, fmt.Errorf("%s: %w", p, err)
		}
	}
	return in.rep, nil
}

func (in *instrumenter) listExports() (map[string]string, error) {
	args := []string{"list", "-export", "-deps", "-f", "{{.ImportPath}}\t{{.Export}}"}
	for _, p := range in.cfg.Pkgs {
		args = append(args, "./"+p)
	}
	cmd := exec.Command(in.cfg.GoCmd, args...)
	cmd.Dir = in.cfg.Root
	cmd.Env = in.cfg.Env
	var stderr bytes.Buffer
	cmd.Stderr = &stderr
	out, err := cmd.Output()
	if err != nil {
		return nil, fmt.Errorf("%v: %s", err, stderr.String())
	}
	m := map[string]string{}
	for _, l := range strings.Split(string(out), "\n") {
		parts := strings.SplitN(l, "\t", 2)
		if len(parts) == 2 {
			m[parts[0]] = parts[1]
		}
	}
	return m, nil
}

func (in *instrumenter) doPkg(rel string, imp types.Importer, typed bool) error {
	dir := filepath.Join(in.cfg.Root, rel)
	ents, err := os.ReadDir(dir)
	if err != nil {
		return err
	}
	ctx := build.Default
	ctx.GOOS, ctx.GOARCH = "linux", "amd64"
	var files []*ast.File
	var names []string
	for _, e := range ents {
		n := e.Name()
		if e.IsDir() || !strings.HasSuffix(n, ".go") || strings.HasSuffix(n, "_test.go") {
			continue
		}
		ok, err := ctx.MatchFile(dir, n)
		if err != nil || !ok {
			continue
		}
		f, err := parser.ParseFile(in.fset, filepath.Join(dir, n), nil, parser.ParseComments)
		if err != nil {
			return err
		}
		files = append(files, f)
		names = append(names, filepath.Join(dir, n))
	}
	if len(files) == 0 {
		return nil
	}
	info := &types.Info{Types: map[ast.Expr]types.TypeAndValue{}, Selections: map[*ast.SelectorExpr]*types.Selection{}, Uses: map[*ast.Ident]types.Object{}, Defs: map[*ast.Ident]types.Object{}}
	if typed {
		conf := types.Config{Importer: imp, Error: func(err error) { in.rep.TypeErrors++ }}
		conf.Check(in.cfg.Module+"/"+rel, in.fset, files, info)
	}
	for i, f := range files {
		fi := &fileInstr{in: in, f: f, info: info, name: names[i], relname: filepath.Join(rel, filepath.Base(names[i]))}
		changed, err := fi.run()
		if err != nil {
			return fmt.Errorf("%s: %w", names[i], err)
		}
		in.rep.Files++
		if changed {
			var buf bytes.Buffer
			if err := (&printer.Config{Mode: printer.UseSpaces | printer.TabIndent, Tabwidth: 8}).Fprint(&buf, in.fset, f); err != nil {
				return err
			}
			// sanity: must parse
			if _, err := parser.ParseFile(token.NewFileSet(), names[i], buf.Bytes(), 0); err != nil {
				os.WriteFile(names[i]+".broken", buf.Bytes(), 0644)
				return fmt.Errorf("instrumented output does not parse: %w", err)
			}
			if err := os.WriteFile(names[i], buf.Bytes(), 0644); err != nil {
				return err
			}
		}
	}
	return nil
}

type fileInstr struct {
	in      *instrumenter
	f       *ast.File
	info    *types.Info
	name    string
	relname string
	imports map[string]string // local name -> path
	touched map[string]bool
	changed bool
	tmpN    int
}

func (fi *fileInstr) site(n ast.Node, kind string) int {
	id := fi.in.nextID
	fi.in.nextID++
	pos := fi.in.fset.Position(n.Pos())
	fi.in.rep.Sites = append(fi.in.rep.Sites, Site{ID: id, File: fi.relname, Line: pos.Line, Kind: kind})
	return id
}

func (fi *fileInstr) warn(n ast.Node, msg string) {
	pos := fi.in.fset.Position(n.Pos())
	fi.in.rep.Warnings = append(fi.in.rep.Warnings, fmt.Sprintf("%s:%d: %s", fi.relname, pos.Line, msg))
}

func yieldStmt(id int) ast.Stmt {
	return &ast.ExprStmt{X: &ast.CallExpr{
		Fun:  &ast.SelectorExpr{X: ast.NewIdent("simrt"), Sel: ast.NewIdent("Yield")},
		Args: []ast.Expr{&ast.BasicLit{Kind: token.INT, Value: strconv.Itoa(id)}},
	}}
}

func depthStmt(d int) ast.Stmt {
	return &ast.ExprStmt{X: &ast.CallExpr{
		Fun:  &ast.SelectorExpr{X: ast.NewIdent("simrt"), Sel: ast.NewIdent("LockDepth")},
		Args: []ast.Expr{&ast.BasicLit{Kind: token.INT, Value: strconv.Itoa(d)}},
	}}
}

func (fi *fileInstr) src(n ast.Node) string {
	var buf bytes.Buffer
	// print without comments: pass the node only
	(&printer.Config{Mode: printer.RawFormat}).Fprint(&buf, fi.in.fset, n)
	return buf.String()
}

func (fi *fileInstr) parseStmt(src string) (ast.Stmt, error) {
	full := "package p\nfunc _() {\n" + src + "\n}\n"
	f, err := parser.ParseFile(fi.in.fset, "", full, 0)
	if err != nil {
		return nil, fmt.Errorf("generated statement does not parse: %v\n%s", err, src)
	}
	body := f.Decls[0].(*ast.FuncDecl).Body
	if len(body.List) == 1 {
		return body.List[0], nil
	}
	return body, nil
}

func (fi *fileInstr) run() (bool, error) {
	// import table
	fi.imports = map[string]string{}
	fi.touched = map[string]bool{}
	for _, im := range fi.f.Imports {
		p, _ := strconv.Unquote(im.Path.Value)
		name := filepath.Base(p)
		if strings.HasPrefix(name, "v") && len(name) <= 3 && strings.Contains(p, "/") { // e.g. gopkg.in/yaml.v2 handled below
			name = filepath.Base(p)
		}
		if im.Name != nil {
			name = im.Name.Name
		} else {
			switch p {
			case "gopkg.in/yaml.v2":
				name = "yaml"
			}
		}
		if name == "_" || name == "." {
			continue
		}
		fi.imports[name] = p
	}
	var ferr error
	inList := func(c *astutil.Cursor) bool {
		if c.Index() < 0 {
			return false
		}
		switch c.Parent().(type) {
		case *ast.BlockStmt, *ast.CaseClause, *ast.CommClause:
			return true
		}
		return false
	}
	post := func(c *astutil.Cursor) bool {
		if ferr != nil {
			return false
		}
		n := c.Node()
		switch x := n.(type) {
		case *ast.SelectorExpr:
			fi.rewriteSelector(c, x)
		case *ast.CallExpr:
			fi.rewriteCall(c, x)
		case *ast.GoStmt:
			if !inList(c) {
				fi.warn(x, "go statement outside a statement list: not instrumented")
				return true
			}
			st, err := fi.rewriteGo(x)
			if err != nil {
				ferr = err
				return false
			}
			c.Replace(st)
			fi.changed = true
		case *ast.SendStmt:
			if inList(c) {
				id := fi.site(x, "send")
				c.InsertBefore(yieldStmt(id))
				c.InsertAfter(yieldStmt(id))
				fi.changed = true
			}
		case *ast.SelectStmt:
			if _, lab := c.Parent().(*ast.LabeledStmt); lab || !inList(c) {
				fi.warn(x, "labeled select: not instrumented")
				return true
			}
			st, pre, err := fi.rewriteSelect(x)
			if err != nil {
				ferr = err
				return false
			}
			if st != nil {
				c.Replace(st)
			}
			if pre > 0 {
				c.InsertBefore(yieldStmt(pre))
			}
			fi.changed = true
		case *ast.ForStmt:
			fi.addTick(x.Body)
		case *ast.RangeStmt:
			fi.addTick(x.Body)
			if fi.isChan(x.X) && inList(c) {
				id := fi.site(x, "range-chan")
				c.InsertBefore(yieldStmt(id))
				x.Body.List = append([]ast.Stmt{yieldStmt(id)}, x.Body.List...)
				c.InsertAfter(yieldStmt(id))
				fi.changed = true
			}
		case *ast.DeferStmt:
			if k := fi.lockKind(x.Call); k == "unlock" {
				id := fi.site(x, "defer-unlock")
				repl := fi.muCall(x.Call, id)
				if repl == "" {
					fi.warn(x, "deferred unlock on an expression of unknown type: left as it is")
					return true
				}
				st, err := fi.parseStmt("defer " + repl)
				if err != nil {
					ferr = err
					return false
				}
				c.Replace(st)
				fi.changed = true
			}
		case *ast.ExprStmt:
			if !inList(c) {
				return true
			}
			if call, ok := x.X.(*ast.CallExpr); ok {
				switch fi.lockKind(call) {
				case "lock", "unlock":
					id := fi.site(x, fi.lockKind(call))
					repl := fi.muCall(call, id)
					if repl == "" {
						fi.warn(x, "lock operation on an expression of unknown type: left as it is")
						return true
					}
					st, err := fi.parseStmt(repl)
					if err != nil {
						ferr = err
						return false
					}
					c.Replace(st)
					fi.changed = true
					return true
				}
				if fi.isBlockingCall(call) {
					id := fi.site(x, "blocking-call")
					c.InsertBefore(yieldStmt(id))
					c.InsertAfter(yieldStmt(id))
					fi.changed = true
					return true
				}
			}
			if hasRecv(x.X) {
				id := fi.site(x, "recv")
				c.InsertBefore(yieldStmt(id))
				c.InsertAfter(yieldStmt(id))
				fi.changed = true
			} else if fi.hasAtomic(x.X) {
				id := fi.site(x, "atomic")
				c.InsertBefore(yieldStmt(id))
				fi.changed = true
			}
		case *ast.AssignStmt:
			if !inList(c) {
				return true
			}
			recv, atom := false, false
			for _, r := range x.Rhs {
				if hasRecv(r) {
					recv = true
				}
				if fi.hasAtomic(r) {
					atom = true
				}
			}
			if recv {
				id := fi.site(x, "recv")
				c.InsertBefore(yieldStmt(id))
				c.InsertAfter(yieldStmt(id))
				fi.changed = true
			} else if atom {
				id := fi.site(x, "atomic")
				c.InsertBefore(yieldStmt(id))
				fi.changed = true
			}
		case *ast.DeclStmt:
			if inList(c) && hasRecv(x) {
				id := fi.site(x, "recv")
				c.InsertBefore(yieldStmt(id))
				c.InsertAfter(yieldStmt(id))
				fi.changed = true
			}
		case *ast.IfStmt:
			// if v, ok := <-ch; ok { ... }: the receive is in the init statement
			if inList(c) && x.Init != nil && hasRecv(x.Init) {
				id := fi.site(x, "recv-in-if")
				c.InsertBefore(yieldStmt(id))
				x.Body.List = append([]ast.Stmt{yieldStmt(id)}, x.Body.List...)
				switch e := x.Else.(type) {
				case *ast.BlockStmt:
					e.List = append([]ast.Stmt{yieldStmt(id)}, e.List...)
				case nil:
					x.Else = &ast.BlockStmt{List: []ast.Stmt{yieldStmt(id)}}
				}
				fi.changed = true
			}
		case *ast.ReturnStmt:
			if inList(c) && hasRecv(x) {
				id := fi.site(x, "recv")
				c.InsertBefore(yieldStmt(id))
				fi.changed = true
			}
		}
		return true
	}
	astutil.Apply(fi.f, nil, post)
	if ferr != nil {
		return false, ferr
	}
	if !fi.changed {
		return false, nil
	}
	// a statement that ended a function as a "terminating statement" (a select
	// whose cases all return, say) may have been rewritten into a form the
	// compiler no longer recognises as terminating: close every function that
	// has results and does not end in a return with an unreachable panic
	ast.Inspect(fi.f, func(n ast.Node) bool {
		var ft *ast.FuncType
		var body *ast.BlockStmt
		switch fn := n.(type) {
		case *ast.FuncDecl:
			ft, body = fn.Type, fn.Body
		case *ast.FuncLit:
			ft, body = fn.Type, fn.Body
		}
		if ft == nil || body == nil || ft.Results == nil || len(ft.Results.List) == 0 || len(body.List) == 0 {
			return true
		}
		if _, isRet := body.List[len(body.List)-1].(*ast.ReturnStmt); !isRet {
			body.List = append(body.List, &ast.ExprStmt{X: &ast.CallExpr{Fun: ast.NewIdent("panic"),
				Args: []ast.Expr{&ast.BasicLit{Kind: token.STRING, Value: strconv.Quote("unreachable (added by the instrumenter)")}}}})
		}
		return true
	})
	// drop comments (moved nodes confuse the printer), keeping those before
	// the package clause (build constraints)
	var keep []*ast.CommentGroup
	for _, cg := range fi.f.Comments {
		if cg.End() < fi.f.Package {
			keep = append(keep, cg)
		}
	}
	fi.f.Comments = keep
	astutil.AddNamedImport(fi.in.fset, fi.f, "simrt", fi.in.cfg.SimrtPkg)
	// imports of packages whose selectors were rewritten may have become
	// unused: turn them into blank imports
	for _, im := range fi.f.Imports {
		p, _ := strconv.Unquote(im.Path.Value)
		if !fi.touched[p] {
			continue
		}
		name := filepath.Base(p)
		if im.Name != nil {
			name = im.Name.Name
		}
		if name == "_" || name == "." {
			continue
		}
		if !usesName(fi.f, name) {
			im.Name = ast.NewIdent("_")
		}
	}
	return true, nil
}

// addTick puts simrt.Tick() at the head of a loop body (fuel accounting).
func (fi *fileInstr) addTick(b *ast.BlockStmt) {
	if b == nil {
		return
	}
	tick := &ast.ExprStmt{X: &ast.CallExpr{Fun: &ast.SelectorExpr{X: ast.NewIdent("simrt"), Sel: ast.NewIdent("Tick")}}}
	b.List = append([]ast.Stmt{tick}, b.List...)
	fi.changed = true
	fi.in.rep.Ticks++
}

func usesName(f *ast.File, name string) bool {
	used := false
	ast.Inspect(f, func(n ast.Node) bool {
		if s, ok := n.(*ast.SelectorExpr); ok {
			if id, ok := s.X.(*ast.Ident); ok && id.Name == name && id.Obj == nil {
				used = true
			}
		}
		return !used
	})
	return used
}

// hasRecv reports a channel receive in the expression tree, not descending
// into function literals.
func hasRecv(n ast.Node) bool {
	found := false
	ast.Inspect(n, func(m ast.Node) bool {
		switch u := m.(type) {
		case *ast.FuncLit:
			return false
		case *ast.UnaryExpr:
			if u.Op == token.ARROW {
				found = true
			}
		}
		return !found
	})
	return found
}

func (fi *fileInstr) pkgOf(id *ast.Ident) (string, bool) {
	if fi.info != nil {
		if obj, ok := fi.info.Uses[id]; ok {
			if pn, ok := obj.(*types.PkgName); ok {
				return pn.Imported().Path(), true
			}
			return "", false
		}
	}
	if id.Obj != nil { // resolved to a local declaration
		return "", false
	}
	p, ok := fi.imports[id.Name]
	return p, ok
}

func (fi *fileInstr) hasAtomic(n ast.Node) bool {
	found := false
	ast.Inspect(n, func(m ast.Node) bool {
		switch u := m.(type) {
		case *ast.FuncLit:
			return false
		case *ast.SelectorExpr:
			if id, ok := u.X.(*ast.Ident); ok {
				if p, ok := fi.pkgOf(id); ok && p == "sync/atomic" {
					found = true
				}
			}
		}
		return !found
	})
	return found
}

func (fi *fileInstr) isChan(e ast.Expr) bool {
	if fi.info == nil {
		return false
	}
	t := fi.info.TypeOf(e)
	if t == nil {
		return false
	}
	_, ok := t.Underlying().(*types.Chan)
	return ok
}

func (fi *fileInstr) methodFullName(call *ast.CallExpr) string {
	sel, ok := call.Fun.(*ast.SelectorExpr)
	if !ok || fi.info == nil {
		return ""
	}
	if s, ok := fi.info.Selections[sel]; ok {
		if f, ok := s.Obj().(*types.Func); ok {
			return f.FullName()
		}
	}
	return ""
}

// muCall renders the simrt call that replaces X.Lock() / X.RLock() /
// X.Unlock() / X.RUnlock(): simrt.MuLock(site, P) etc., where P is X when X
// is a pointer and &X otherwise (the methods have pointer receivers, so X is
// addressable then). Returns "" when the type of X is not known.
func (fi *fileInstr) muCall(call *ast.CallExpr, id int) string {
	sel, ok := call.Fun.(*ast.SelectorExpr)
	if !ok || fi.info == nil {
		return ""
	}
	t := fi.info.TypeOf(sel.X)
	if t == nil {
		return ""
	}
	x := fi.src(sel.X)
	if _, isPtr := t.Underlying().(*types.Pointer); !isPtr {
		x = "&(" + x + ")"
	}
	fn := map[string]string{"Lock": "MuLock", "RLock": "MuRLock", "Unlock": "MuUnlock", "RUnlock": "MuRUnlock"}[sel.Sel.Name]
	if fn == "" {
		return ""
	}
	return fmt.Sprintf("simrt.%s(%d, %s)", fn, id, x)
}

// lockKind classifies X.Lock()/RLock() ("lock") and X.Unlock()/RUnlock()
// ("unlock") on sync.Mutex / sync.RWMutex (also promoted through embedding).
func (fi *fileInstr) lockKind(call *ast.CallExpr) string {
	sel, ok := call.Fun.(*ast.SelectorExpr)
	if !ok || len(call.Args) != 0 {
		return ""
	}
	name := sel.Sel.Name
	kind := ""
	switch name {
	case "Lock", "RLock":
		kind = "lock"
	case "Unlock", "RUnlock":
		kind = "unlock"
	default:
		return ""
	}
	if full := fi.methodFullName(call); full != "" {
		if strings.HasPrefix(full, "(*sync.Mutex).") || strings.HasPrefix(full, "(*sync.RWMutex).") {
			return kind
		}
		return ""
	}
	if fi.info != nil && fi.info.TypeOf(sel.X) != nil {
		return "" // typed and not a sync method
	}
	// syntactic fallback
	if id, ok := sel.X.(*ast.Ident); ok {
		if _, isPkg := fi.pkgOf(id); isPkg {
			return ""
		}
	}
	return kind
}

// isBlockingCall: (*sync.WaitGroup).Wait, time.Sleep, close(ch).
func (fi *fileInstr) isBlockingCall(call *ast.CallExpr) bool {
	switch f := call.Fun.(type) {
	case *ast.Ident:
		if f.Name == "close" && len(call.Args) == 1 && f.Obj == nil {
			return true
		}
	case *ast.SelectorExpr:
		if id, ok := f.X.(*ast.Ident); ok {
			if p, ok := fi.pkgOf(id); ok {
				return p == "time" && f.Sel.Name == "Sleep"
			}
		}
		if full := fi.methodFullName(call); full != "" {
			return full == "(*sync.WaitGroup).Wait" || full == "(*sync.Cond).Wait"
		}
		if f.Sel.Name == "Wait" && len(call.Args) == 0 && (fi.info == nil || fi.info.TypeOf(f.X) == nil) {
			return true
		}
	}
	return false
}

func simrtSel(name string) ast.Expr {
	return &ast.SelectorExpr{X: ast.NewIdent("simrt"), Sel: ast.NewIdent(name)}
}

func (fi *fileInstr) rewriteSelector(c *astutil.Cursor, x *ast.SelectorExpr) {
	id, ok := x.X.(*ast.Ident)
	if !ok {
		return
	}
	p, ok := fi.pkgOf(id)
	if !ok {
		return
	}
	tab, ok := selTable[p]
	if !ok {
		if ioPkgs[p] {
			fi.noteUnsim(p, x.Sel.Name)
		}
		return
	}
	rep, ok := tab[x.Sel.Name]
	if !ok {
		rep, ok = tab["*"]
	}
	if !ok {
		if ioPkgs[p] {
			fi.noteUnsim(p, x.Sel.Name)
		}
		return
	}
	key := p + "." + x.Sel.Name
	switch {
	case rep == "!flag":
		if x.Sel.Name == "Parse" {
			c.Replace(simrtSel("FlagParse"))
		} else if isTypeName(x.Sel.Name) {
			return // flag.FlagSet etc: leave
		} else {
			c.Replace(&ast.SelectorExpr{X: &ast.CallExpr{Fun: simrtSel("FlagSet")}, Sel: ast.NewIdent(x.Sel.Name)})
		}
	case strings.HasPrefix(rep, "!call:"):
		c.Replace(&ast.CallExpr{Fun: simrtSel(strings.TrimPrefix(rep, "!call:"))})
	case strings.HasPrefix(rep, "!fatal:"):
		return // handled at the call
	default:
		c.Replace(simrtSel(rep))
	}
	fi.in.rep.Rewritten[key]++
	fi.touched[p] = true
	fi.changed = true
}

func isTypeName(n string) bool {
	switch n {
	case "FlagSet", "Flag", "Value", "Getter", "ErrorHandling", "ContinueOnError", "ExitOnError", "PanicOnError", "ErrHelp":
		return true
	}
	return false
}

func (fi *fileInstr) noteUnsim(p, name string) {
	k := p + "." + name
	if ioHarmless[k] {
		return
	}
	fi.in.rep.Unsimulated[k]++
}

// rewriteCall handles log.Fatal*(...) and (*log.Logger).Fatal*(...).
func (fi *fileInstr) rewriteCall(c *astutil.Cursor, call *ast.CallExpr) {
	sel, ok := call.Fun.(*ast.SelectorExpr)
	if !ok {
		return
	}
	name := sel.Sel.Name
	if name != "Fatal" && name != "Fatalf" && name != "Fatalln" {
		return
	}
	var recv ast.Expr
	if id, ok := sel.X.(*ast.Ident); ok {
		if p, isPkg := fi.pkgOf(id); isPkg {
			if p != "log" {
				return
			}
			recv = ast.NewIdent("nil")
		}
	}
	if recv == nil {
		if full := fi.methodFullName(call); full != "" {
			if !strings.HasPrefix(full, "(*log.Logger).") {
				return
			}
		} else if fi.info != nil && fi.info.TypeOf(sel.X) != nil {
			return
		}
		recv = sel.X
	}
	call.Fun = simrtSel("Log" + name)
	call.Args = append([]ast.Expr{recv}, call.Args...)
	fi.touched["log"] = true
	fi.in.rep.Rewritten["log."+name]++
	fi.changed = true
}

func isInlineArg(e ast.Expr) bool {
	switch v := e.(type) {
	case *ast.BasicLit:
		return true
	case *ast.Ident:
		return v.Name == "nil" || v.Name == "true" || v.Name == "false"
	case *ast.UnaryExpr:
		return isInlineArg(v.X) && v.Op != token.ARROW && v.Op != token.AND
	case *ast.ParenExpr:
		return isInlineArg(v.X)
	}
	return false
}

// rewriteGo: go f(a, b) -> { _f := f; _a0 := a; ...; simrt.Go(id, func(){ _f(_a0, ...) }); } ; simrt.Yield
func (fi *fileInstr) rewriteGo(g *ast.GoStmt) (ast.Stmt, error) {
	id := fi.site(g, "go")
	fi.tmpN++
	pfx := fmt.Sprintf("_vg%d", fi.tmpN)
	var b strings.Builder
	b.WriteString("{\n")
	call := g.Call
	fn := ""
	if fl, ok := call.Fun.(*ast.FuncLit); ok && len(call.Args) == 0 {
		// go func(){...}() : pass the literal directly
		fn = fi.src(fl)
		fmt.Fprintf(&b, "simrt.Go(%d, %s)\n", id, fn)
	} else {
		fmt.Fprintf(&b, "%sf := %s\n", pfx, fi.src(call.Fun))
		var args []string
		for i, a := range call.Args {
			if isInlineArg(a) {
				args = append(args, fi.src(a))
				continue
			}
			v := fmt.Sprintf("%sa%d", pfx, i)
			fmt.Fprintf(&b, "%s := %s\n", v, fi.src(a))
			args = append(args, v)
		}
		ell := ""
		if call.Ellipsis.IsValid() {
			ell = "..."
		}
		fmt.Fprintf(&b, "simrt.Go(%d, func() { %sf(%s%s) })\n", id, pfx, strings.Join(args, ", "), ell)
	}
	fmt.Fprintf(&b, "simrt.Yield(%d)\n}", id)
	return fi.parseStmt(b.String())
}

// rewriteSelect returns a replacement statement (or nil to keep the select)
// and a site id for a yield to insert before (0: none).
func (fi *fileInstr) rewriteSelect(s *ast.SelectStmt) (ast.Stmt, int, error) {
	var comm []*ast.CommClause
	var def *ast.CommClause
	for _, cl := range s.Body.List {
		cc := cl.(*ast.CommClause)
		if cc.Comm == nil {
			def = cc
		} else {
			comm = append(comm, cc)
		}
	}
	if len(comm) == 0 {
		return nil, 0, nil // select{} or default only
	}
	id := fi.site(s, "select")
	if def != nil && len(comm) == 1 {
		// non-blocking single op: no choice, never blocks
		return nil, id, nil
	}
	if def == nil && len(comm) == 1 {
		// plain blocking op
		cc := comm[0]
		cc.Body = append([]ast.Stmt{yieldStmt(id)}, cc.Body...)
		return nil, id, nil
	}
	// >= 2 communication cases: evaluate operands once, try the cases one at a
	// time in a rotation drawn from the choice stream, then block in the
	// original select.
	fi.tmpN++
	pfx := fmt.Sprintf("_vs%d", fi.tmpN)
	var b strings.Builder
	b.WriteString("{\n")
	type caseGen struct {
		comm string // communication clause text using temporaries
		body string
	}
	var gens []caseGen
	for i, cc := range comm {
		chv := fmt.Sprintf("%sc%d", pfx, i)
		var commTxt string
		switch st := cc.Comm.(type) {
		case *ast.SendStmt:
			fmt.Fprintf(&b, "%s := %s\n", chv, fi.src(st.Chan))
			val := fi.src(st.Value)
			if !isInlineArg(st.Value) {
				vv := fmt.Sprintf("%sv%d", pfx, i)
				fmt.Fprintf(&b, "%s := %s\n", vv, val)
				val = vv
			}
			commTxt = fmt.Sprintf("%s <- %s", chv, val)
		case *ast.ExprStmt:
			u, ok := unparen(st.X).(*ast.UnaryExpr)
			if !ok || u.Op != token.ARROW {
				return nil, 0, fmt.Errorf("unexpected select comm expr")
			}
			fmt.Fprintf(&b, "%s := %s\n", chv, fi.src(u.X))
			commTxt = fmt.Sprintf("<-%s", chv)
		case *ast.AssignStmt:
			if len(st.Rhs) != 1 {
				return nil, 0, fmt.Errorf("unexpected select assign")
			}
			u, ok := unparen(st.Rhs[0]).(*ast.UnaryExpr)
			if !ok || u.Op != token.ARROW {
				return nil, 0, fmt.Errorf("unexpected select comm assign")
			}
			if st.Tok == token.DEFINE {
				// need a declaration with the element type
				ok := false
				if fi.info != nil {
					if t := fi.info.TypeOf(u.X); t != nil {
						if ch, isCh := t.Underlying().(*types.Chan); isCh {
							ts := types.TypeString(ch.Elem(), fi.qualifier())
							lhs0 := fi.src(st.Lhs[0])
							if lhs0 != "_" {
								fmt.Fprintf(&b, "var %s %s\n_ = %s\n", lhs0, ts, lhs0)
							}
							if len(st.Lhs) == 2 {
								if l1 := fi.src(st.Lhs[1]); l1 != "_" {
									fmt.Fprintf(&b, "var %s bool\n_ = %s\n", l1, l1)
								}
							}
							ok = true
						}
					}
				}
				if !ok {
					fi.warn(s, "select with := receive and no type information: left to the runtime")
					return nil, id, nil
				}
			}
			fmt.Fprintf(&b, "%s := %s\n", chv, fi.src(u.X))
			var lhs []string
			for _, l := range st.Lhs {
				lhs = append(lhs, fi.src(l))
			}
			commTxt = fmt.Sprintf("%s = <-%s", strings.Join(lhs, ", "), chv)
		default:
			return nil, 0, fmt.Errorf("unexpected select comm %T", cc.Comm)
		}
		var body strings.Builder
		for _, st := range cc.Body {
			body.WriteString(fi.src(st))
			body.WriteString("\n")
		}
		gens = append(gens, caseGen{commTxt, body.String()})
	}
	n := len(gens)
	sel := pfx + "k"
	fmt.Fprintf(&b, "simrt.Yield(%d)\n", id)
	fmt.Fprintf(&b, "%s := -1\n", sel)
	fmt.Fprintf(&b, "for %si, %sr := 0, simrt.SelectStart(%d, %d); %si < %d && %s < 0; %si++ {\n", pfx, pfx, id, n, pfx, n, sel, pfx)
	fmt.Fprintf(&b, "switch (%sr + %si) %% %d {\n", pfx, pfx, n)
	for i, g := range gens {
		fmt.Fprintf(&b, "case %d:\nselect {\ncase %s:\n%s = %d\ndefault:\n}\n", i, g.comm, sel, i)
	}
	b.WriteString("}\n}\n")
	if def == nil {
		fmt.Fprintf(&b, "if %s < 0 {\nselect {\n", sel)
		for i, g := range gens {
			fmt.Fprintf(&b, "case %s:\n%s = %d\n", g.comm, sel, i)
		}
		b.WriteString("}\n}\n")
	}
	fmt.Fprintf(&b, "simrt.Yield(%d)\n", id)
	fmt.Fprintf(&b, "switch %s {\n", sel)
	for i, g := range gens {
		fmt.Fprintf(&b, "case %d:\n%s", i, g.body)
	}
	if def != nil {
		var body strings.Builder
		for _, st := range def.Body {
			body.WriteString(fi.src(st))
			body.WriteString("\n")
		}
		fmt.Fprintf(&b, "default:\n%s", body.String())
	}
	b.WriteString("}\n}")
	st, err := fi.parseStmt(b.String())
	return st, 0, err
}

func unparen(e ast.Expr) ast.Expr {
	for {
		p, ok := e.(*ast.ParenExpr)
		if !ok {
			return e
		}
		e = p.X
	}
}

func (fi *fileInstr) qualifier() types.Qualifier {
	return func(p *types.Package) string {
		for name, path := range fi.imports {
			if path == p.Path() {
				return name
			}
		}
		if p.Path() == fi.in.cfg.Module || strings.HasSuffix(fi.name, "") && fi.f.Name.Name == p.Name() {
			return ""
		}
		return p.Name()
	}
}

// WriteReport stores the report as JSON.
func (r *Report) WriteReport(path string) error {
	sort.Strings(r.Warnings)
	b, err := json.MarshalIndent(r, "", " ")
	if err != nil {
		return err
	}
	return os.WriteFile(path, b, 0644)
}
