#!/bin/sh
# runs every registered quick check once (developer helper); prints one summary line per check
cd /verif
for id in $(python3 -c "import json;print(' '.join(c['property_id'] for c in json.load(open('MANIFEST.json'))['checks']))"); do
  ./bin/verifctl check $id --tier quick 2>&1 | grep -E "VIOLATION|KNOWN-FINDING|INFRA|verifctl: C" | cut -c1-260
done
