#!/bin/sh
# selftest_benign.sh: applies every behaviour-preserving change under /verif/benign in turn (through
# tool/try_mut.sh) and runs the quick checks named in its checks.txt; every line must say exit=0.
cd /verif
for d in benign/*/; do
  [ -f $d/patch.diff ] || continue
  BUDGET=${BUDGET:-15} ./tool/try_mut.sh $d $(cat $d/checks.txt)
done
