#!/bin/sh
# selftest_mutants.sh [name-prefix]: applies every seeded change under /verif/seeded to /repo in turn,
# runs the quick check(s) named in its meta.json "caught_by" (first token per entry), expects exit 1,
# and reverts. /repo must be clean. Prints one line per (change, check).
cd /verif
git -C /repo diff --quiet || { echo "/repo has uncommitted changes"; exit 2; }
for d in seeded/${1:-}*/; do
  name=$(basename $d)
  checks=$(python3 -c "
import json,re,sys
m=json.load(open('$d/meta.json'))
print(' '.join(dict.fromkeys(re.findall(r'\bC\d\d\b', m['caught_by']))))")
  git -C /repo apply /verif/$d/patch.diff 2>/dev/null || { echo "$name APPLY-FAILED"; continue; }
  for c in $checks; do
    env $(python3 -c "
import json
m=json.load(open('$d/meta.json'))
print(m.get('env',''))") VERIF_BUDGET_SEC=${BUDGET:-20} ./bin/verifctl check $c --tier quick > /tmp/mut.$$ 2>&1
    rc=$?
    cls=$(grep -m1 "class=" /tmp/mut.$$ | sed 's/^ *//' | cut -c1-100)
    echo "$name $c exit=$rc $cls"
  done
  git -C /repo checkout -- .
done
rm -f /tmp/mut.$$; rm -rf /verif/replays/C*
