#!/bin/sh
# selftest_mutants.sh [name-prefix]: applies every seeded change under /verif/seeded to /repo in turn
# (through tool/try_mut.sh: under the advisory tree lock, reverted as soon as the check has copied
# the tree), runs the quick check(s) named in its meta.json "caught_by", expects exit 1.
# Prints one line per (change, check).
cd /verif
for d in seeded/${1:-}*/; do
  name=$(basename $d)
  checks=$(python3 -c "
import json,re,sys
m=json.load(open('$d/meta.json'))
txt=re.split(r'(?i)\b(not by|not caught|rarely caught|only with|does not reach)\b', m['caught_by'])[0]
print(' '.join(dict.fromkeys(re.findall(r'\bC\d\d\b', txt))))")
  envs=$(python3 -c "
import json
m=json.load(open('$d/meta.json'))
print(m.get('env',''))")
  env $envs BUDGET=${BUDGET:-20} ./tool/try_mut.sh $d $checks
done
rm -rf /verif/replays
