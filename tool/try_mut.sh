#!/bin/sh
# try_mut.sh <dir-with-patch.diff> <check-id>...: applies the change to /repo under the advisory
# lock that verifctl takes while it copies the tree, starts each quick check, and reverts /repo as
# soon as the check has taken its copy (so /repo carries the change for a few seconds only and a
# check running in the background never copies it). Prints one line per check.
# BUDGET (seconds, default 20) and W (workers, default 6) tune the run.
cd /verif
D=$(cd "$1" && pwd); shift
exec 9>/var/tmp/verif-repo.lock
for c in "$@"; do
  flock 9
  git -C /repo diff --quiet || { echo "/repo has uncommitted changes"; exit 2; }
  git -C /repo apply "$D/patch.diff" || { echo "$(basename $D) APPLY-FAILED"; flock -u 9; exit 2; }
  out=/var/tmp/try_mut.$$.out
  : > $out
  VERIF_LOCK_HELD=1 VERIF_NO_EVIDENCE=1 VERIF_WORKERS=${W:-6} VERIF_BUDGET_SEC=${BUDGET:-20} ./bin/verifctl check $c --tier quick > $out 2>&1 &
  pid=$!
  while kill -0 $pid 2>/dev/null && ! grep -a -q "tree copied\|build failed" $out; do sleep 0.2; done
  git -C /repo checkout -- .
  flock -u 9
  wait $pid; rc=$?
  cls=$(grep -a -m1 "class=" $out | sed 's/^ *//' | cut -c1-160)
  echo "$(basename $D) $c exit=$rc $cls"
  rm -f $out
done
