#!/bin/sh
# verify_seeded.sh <dir-with-patch.diff-and-demo> <pkg> <run-regex> <demo-file> [dest-dir-in-worktree]
# Confirms in a fresh scratch worktree of /repo HEAD: the change applies and compiles, the
# existing suite passes with it, the demonstration fails with it and passes without it.
set -u
D=$1; PKG=$2; RUN=$3; DEMO=$4; DEST=${5:-$PKG}
export GOFLAGS=-mod=mod GOPROXY=off GOSUMDB=off
WT=/tmp/vs-$$
git -C /repo worktree add -q $WT HEAD || exit 2
trap 'git -C /repo worktree remove --force $WT' EXIT
cd $WT
git apply $D/patch.diff || { echo "RESULT apply=FAIL"; exit 1; }
go build ./... || { echo "RESULT build=FAIL"; exit 1; }
if go test -vet=off -count=1 ./... > /tmp/vs-suite.$$ 2>&1; then SUITE=pass; else SUITE=FAIL; tail -5 /tmp/vs-suite.$$; fi
cp $D/demo/$DEMO $WT/$DEST/
if go test -vet=off -count=1 -run "$RUN" ./$PKG/ > /tmp/vs-demo1.$$ 2>&1; then WITH=pass; else WITH=fail; fi
git apply -R $D/patch.diff
if go test -vet=off -count=1 -run "$RUN" ./$PKG/ > /tmp/vs-demo2.$$ 2>&1; then WITHOUT=pass; else WITHOUT=fail; tail -5 /tmp/vs-demo2.$$; fi
echo "RESULT suite_with_change=$SUITE demo_with_change=$WITH demo_without_change=$WITHOUT"
rm -f /tmp/vs-suite.$$ /tmp/vs-demo1.$$ /tmp/vs-demo2.$$
